"""C16, the FILE-SYSTEMS dimension: the directories of a local store on different mounted file systems.

A configuration whose directories are usable must work wherever the directories live: the internal directory and the data
directory (or the two data views of one internal directory) may be on different file systems (a scratch disk and a home
directory, /dev/shm and /tmp...), and a symbolic link among the ancestors of a directory - or inside a pre-existing internal /
data directory - may cross to another file system.  Objects cannot be moved (rename / link) across file systems, so every
step of a commit that prepares an object in one directory and publishes it in another one breaks here and nowhere else.

What is checked (the expectations come from the property: plain execution of the kept function, one blob per code version in
the shared internal directory, one independent path map per data view):
  * keep followed by load round-trips in both views, after chdir and in a second process started elsewhere;
  * a value computed through one view is not recomputed through the other view / under another path / in the other process;
  * a view does not serve the paths that only the other view kept, and keeps its own values when the other view moves on;
  * at the end every kept path is, under the physical data directory of its view, a link to a blob of the internal directory.

The second file system is found by st_dev among /dev/shm, /run/user/*, /var/tmp, /tmp, the temporary directory (and probed: a
rename from the scratch directory must fail with EXDEV).  When there is none the dimension is skipped (reported in
input_distribution / the rule) and only the controls run: the same placements with everything on the scratch file system."""
import atexit
import errno
import glob
import json
import os
import shutil
import tempfile

import common as C
import c16_nested

_second = []


def second_file_system():
    """a fresh directory (removed at exit) on another file system than the scratch directory, or None"""
    if _second:
        return _second[0]
    home, found = os.stat(C.scratch_dir()).st_dev, None
    for c in ["/dev/shm"] + sorted(glob.glob("/run/user/*")) + ["/var/tmp", "/tmp", tempfile.gettempdir()]:
        try:
            if not (os.path.isdir(c) and os.access(c, os.W_OK | os.X_OK) and os.stat(c).st_dev != home):
                continue
            d = tempfile.mkdtemp(prefix="ddsverif_c16fs_", dir=c)
            probe = os.path.join(C.scratch_dir(), f"c16fs_probe_{os.getpid()}")
            open(probe, "w").close()
            try:
                os.rename(probe, os.path.join(d, "probe"))
                crossing = False      # (the same file system under another device number: of no use here)
            except OSError as e:
                crossing = e.errno == errno.EXDEV
            for p in (probe, os.path.join(d, "probe")):
                if os.path.lexists(p):
                    os.remove(p)
            if crossing:
                found = d
                atexit.register(lambda: shutil.rmtree(d, ignore_errors=True))
                break
            shutil.rmtree(d, ignore_errors=True)
        except OSError:
            continue
    _second.append(found)
    return found


def _mk(*ds):
    for d in ds:
        os.makedirs(d, exist_ok=True)


def _lnk(target, name):
    _mk(target, os.path.dirname(name))
    os.symlink(target, name)


def _p_same(b, o):
    return b + "/st/int", b + "/va", b + "/vb", ()


def _p_view_b(b, o):
    return b + "/st/int", b + "/va", o + "/vb", ()


def _p_internal(b, o):
    return o + "/st/int", b + "/va", o + "/vb", ()


def _p_all(b, o):
    return o + "/st/int", o + "/va", o + "/vb", ()


def _p_views(b, o):
    return b + "/st/int", o + "/va", o + "/x/vb", ()


def _p_view_b_link(b, o):
    _lnk(o + "/target", b + "/lnk_b")
    return b + "/st/int", b + "/va", b + "/lnk_b/vb", ()


def _p_internal_link(b, o):
    _lnk(o + "/disk", b + "/lnk_i")
    return b + "/lnk_i/int", b + "/va", o + "/vb", ()


def _p_blobs(b, o):
    _lnk(o + "/blobs", b + "/st/int/blobs")
    return b + "/st/int", b + "/va", b + "/vb", ("I",)


def _p_subdir(b, o):
    _lnk(o + "/d_a", b + "/va/d")
    _lnk(o + "/d_b", b + "/vb/d")
    return b + "/st/int", b + "/va", b + "/vb", ("A", "B")


def _p_readonly(b, o):
    _mk(b + "/ro/int", o + "/ro/vb")
    os.chmod(b + "/ro", 0o555); os.chmod(o + "/ro", 0o555)
    return b + "/ro/int", b + "/va", o + "/ro/vb", ("I", "B")


# placement -> (internal directory, data view A, data view B, the pre-existing ones); b: on the scratch file system, o: on the other one
PLACEMENTS = {
    "same-file-system": _p_same,                              # control
    "view-b-on-other-fs": _p_view_b,                          # internal + view A here, view B there
    "internal-and-view-b-on-other-fs": _p_internal,           # view A alone on this one
    "all-on-other-fs": _p_all,                                # (the working directories stay here)
    "both-views-on-other-fs": _p_views,
    "view-b-link-crossing": _p_view_b_link,                   # the configured name of B is here, a link among its ancestors leads there
    "internal-link-crossing": _p_internal_link,
    "blobs-directory-on-other-fs": _p_blobs,                  # pre-existing internal directory whose blobs/ is a link to the other one
    "data-subdirectory-on-other-fs": _p_subdir,               # pre-existing data directories: the directory of a path segment is there
    "read-only-parents": _p_readonly,                         # usable pre-existing directories in parents that are not writable (where permissions are enforced: not as root)
}
SHAPES = ("absolute", "trailing-slash", "relative", "nested-non-existing", "relative-nested")
KEPT = {"A": {"/p": "value-s0", "/d/e/q": "value-s1"}, "B": {"/p": "value-s1", "/d/e/q": "value-s1", "/r": "value-s0"}}
NEVER = {"A": ["/r"], "B": []}


_enforced = []


def permissions_enforced():
    """does a directory without the write permission refuse new entries? (not for root / with CAP_DAC_OVERRIDE)"""
    if not _enforced:
        d = tempfile.mkdtemp(prefix="c16f_ro_", dir=C.scratch_dir())
        os.chmod(d, 0o555)
        try:
            os.mkdir(os.path.join(d, "x"))
            _enforced.append(False)
        except OSError:
            _enforced.append(True)
        os.chmod(d, 0o755)
        shutil.rmtree(d, ignore_errors=True)
    return _enforced[0]


def applicable(placement):
    return placement != "read-only-parents" or permissions_enforced()


def history(dirs, shape, cache):
    """-> [(driver steps, expected)] for the two processes; a relative name is relative to the working directory of the moment"""
    def cfg(v, cwd):
        def sp(d):
            d = os.path.relpath(d, os.path.realpath(cwd)) if shape.startswith("relative") else d
            return d + "/" if shape == "trailing-slash" else d
        return {"set_store": {"internal_dir": sp(dirs["I"]), "data_dir": sp(dirs[v]), "cache_objects": cache}}
    b, st = dirs["base"], "U:"
    p1 = [(cfg("A", b), st), ({"keep": ["/p", "s0"]}, "V:value-s0:ran=1"), ({"load": "/p"}, "L:value-s0"),
          ({"keep": ["/d/e/q", "s0"]}, "V:value-s0:ran=0"),                       # another path of the same function: the blob is there
          (cfg("B", b), st), ({"load": "/p"}, "E:"),                              # B never kept /p
          ({"keep": ["/p", "s0"]}, "V:value-s0:ran=0"), ({"load": "/p"}, "L:value-s0"),   # served from the shared blobs
          ({"keep": ["/d/e/q", "s1"]}, "V:value-s1:ran=1"), ({"load": "/d/e/q"}, "L:value-s1"),
          ({"chdir": "elsewhere/deep"}, "U"), ({"load": "/p"}, "L:value-s0"),
          ({"keep": ["/p", "s1"]}, "V:value-s1:ran=0"), ({"load": "/p"}, "L:value-s1"),
          (cfg("A", b + "/elsewhere/deep"), st), ({"load": "/p"}, "L:value-s0"), ({"load": "/d/e/q"}, "L:value-s0")]   # A kept its own view
    p2 = [({"chdir": "wd2"}, "U"), (cfg("B", b + "/wd2"), st), ({"load": "/p"}, "L:value-s1"), ({"load": "/d/e/q"}, "L:value-s1"),
          ({"keep": ["/p", "s1"]}, "V:value-s1:ran=0"), ({"keep": ["/r", "s0"]}, "V:value-s0:ran=0"), ({"load": "/r"}, "L:value-s0"),
          (cfg("A", b + "/wd2"), st), ({"load": "/r"}, "E:"), ({"keep": ["/d/e/q", "s1"]}, "V:value-s1:ran=0"),
          ({"load": "/d/e/q"}, "L:value-s1"), ({"load": "/p"}, "L:value-s0")]
    return [([s for s, _ in p], [w for _, w in p]) for p in (p1, p2)]


def inspect(dirs):
    """the physical content of the data directories at the end"""
    bad, blobs = [], os.path.realpath(os.path.join(dirs["I"], "blobs"))
    for v in ("A", "B"):
        for p in list(KEPT[v]) + NEVER[v]:
            loc = os.path.join(dirs[v], *[s for s in p.split("/") if s])
            if p in KEPT[v] and not (os.path.islink(loc) and os.path.isfile(loc) and os.path.dirname(os.path.realpath(loc)) == blobs):
                bad.append(f"view {v}: {p} is kept but {loc} is not a link to a blob of {blobs}")
            if p not in KEPT[v] and os.path.lexists(loc):
                bad.append(f"view {v}: {p} was never kept in this view but {loc} exists")
    return bad


def run_scenario(case):
    import c16
    base = tempfile.mkdtemp(prefix="c16f_", dir=C.scratch_dir())
    second = second_file_system() if case["other"] else None
    other = tempfile.mkdtemp(prefix="c16f_", dir=second) if second else os.path.join(base, "other_same_fs")
    try:
        c16.write_mod(base)
        _mk(base + "/elsewhere/deep", base + "/wd2", other)
        i, a, b, pre = PLACEMENTS[case["placement"]](base, other)
        nest = case["shape"] in ("nested-non-existing", "relative-nested")
        dirs = {"base": base, "I": i, "A": a, "B": b + "/n1/n2/data" if nest and "B" not in pre else b}
        procs, fails, trace = history(dirs, case["shape"], case["cache"]), [], []
        for k, (steps, want) in enumerate(procs):
            got = C.run_driver("drive_config.py", {"base": base, "steps": steps})
            trace.append({"process": k + 1, "steps": steps, "observed": got, "expected": want})
            fails += [{"process": k + 1, "step": j, "did": steps[j], "observed": g, "expected": w} for j, (g, w) in enumerate(zip(got, want))
                      if not (g.startswith(w) if w in ("E:", "U:") else g == w)]
        fails += [{"process": "file system", "step": 0, "did": "inspection of the data directories", "observed": x, "expected": "a link per kept path"}
                  for x in inspect(dirs)]
        dev = {k: os.stat(d).st_dev if os.path.isdir(d) else None for k, d in dirs.items()}
        dev["I/blobs"] = os.stat(i + "/blobs").st_dev if os.path.isdir(i + "/blobs") else None
        dev["A/d"] = os.stat(a + "/d").st_dev if os.path.isdir(a + "/d") else None
        return {"case": case, "fails": fails, "trace": trace, "dirs": dirs, "st_dev": dev, "second_file_system": second}
    except Exception as e:  # noqa
        return {"case": case, "error": str(e)[-500:]}
    finally:
        for d in (base + "/ro", other + "/ro"):
            if os.path.isdir(d):
                os.chmod(d, 0o755)
        shutil.rmtree(base, ignore_errors=True)
        shutil.rmtree(other, ignore_errors=True)


def nested_other_fs(base, rels):
    """for harness/c16_nested.py: base/<rel> becomes a link to a fresh directory of the second file system -> those directories"""
    out = []
    for rel in rels:
        out.append(tempfile.mkdtemp(prefix="c16fn_", dir=second_file_system()))
        _lnk(out[-1], os.path.join(base, rel))
    return out


# nested keeps (harness/c16_nested.py) with a part of the tree on the second file system
NESTED = (("two-views", ["views/b"]), ("interleaved", ["store"]), ("sub-pipeline", ["views"]), ("new-path", ["views/b"]),
          ("two-views-partial", ["store", "views/a"]), ("revert", ["views/a"]))


def cases_for(tier, rng, caches, quick):
    have, out, nested = second_file_system() is not None, [], []
    places = [p for p in PLACEMENTS if applicable(p)]
    o = [rng.randrange(100) for _ in range(3)]
    if quick:
        # the control, then every placement on two file systems twice: shapes and cache options rotate (offsets drawn from the seed)
        out.append({"placement": "same-file-system", "other": False, "shape": SHAPES[o[0] % len(SHAPES)], "cache": caches[o[1] % len(caches)]})
        for j, p in enumerate(p for p in places[1:] for _ in range(2) if have):
            out.append({"placement": p, "other": True, "shape": SHAPES[(j + j // len(SHAPES) + o[0]) % len(SHAPES)], "cache": caches[(j + o[1]) % len(caches)]})
        nk = NESTED[o[2] % len(NESTED):] + NESTED[:o[2] % len(NESTED)]
    else:
        for p in places:
            for other in ([False, True] if have and p != "same-file-system" else [False]):
                out += [{"placement": p, "other": other, "shape": s, "cache": c} for s in SHAPES for c in caches]
        nk = NESTED * 2
    if have:
        pipes, spells = list(c16_nested.PIPES), list(c16_nested.SPELLINGS)
        for j, (k, rels) in enumerate(nk[:3] if quick else nk):
            nested.append({"kind": k, "pipe": pipes[(j + o[0]) % len(pipes)], "spelling": spells[(j + o[1]) % len(spells)],
                           "cache": caches[(j + o[2]) % len(caches)], "entry": c16_nested.ENTRIES[(j + j // 6) % 2], "other_fs": rels})
    return out, nested


def start(tier, proof_ok, rng, ex, caches):
    cases, nested = cases_for(tier, rng, caches, tier == "quick" and proof_ok)
    return cases, nested, [ex.submit(c16_nested.run_scenario, c) for c in nested], [ex.submit(run_scenario, c) for c in cases]


def describe(r):
    c, f = r["case"], r["fails"][0]
    where = f"second file system {r['second_file_system']}" if c["other"] else "control: everything on the scratch file system"
    return (f"file systems, placement {c['placement']} ({where}; st_dev {json.dumps(r['st_dev'])}), directories spelled {c['shape']}, "
            f"cache_objects={c['cache']}: process {f['process']} step {f['step']} {json.dumps(f['did'])[:200]} gave {str(f['observed'])[:160]}, "
            f"expected {f['expected']}" + (f"; {len(r['fails']) - 1} more difference(s)" if len(r["fails"]) > 1 else ""))


def classify(f):
    g, w = str(f["observed"]), f["expected"]
    if f["process"] == "file system":
        return "data-directory-content"
    if g[:1] in "XE" and w != "E:":
        return ("keep" if "keep" in f["did"] else "load" if "load" in f["did"] else "set_store") + "-fails:" + ":".join(g.split(":")[:2])
    if w == "E:":
        return "path-of-the-other-view-served"
    return "recomputation" if g.split(":ran=")[0] == w.split(":ran=")[0] else "wrong-value"


def collect(rep, started):
    cases, nested, nfuts, futs = started
    for r in [f.result() for f in futs]:
        c = r["case"]
        rep.case("fs:" + json.dumps(c, sort_keys=True), nontrivial=c["other"])
        if "error" in r:
            rep.violation("harness-error:c16-fs", r["error"][-300:], r, no_input=True)
        elif r["fails"]:
            rep.violation(f"file-systems:{c['placement'] if c['other'] else 'control'}:{classify(r['fails'][0])}", describe(r),
                          {"fs_case": c, "dirs": r["dirs"], "st_dev": r["st_dev"], "second_file_system": r["second_file_system"],
                           "fails": r["fails"][:8], "trace": r["trace"]})
    for r in [f.result() for f in nfuts]:
        rep.case("fs-nested:" + json.dumps(r["case"], sort_keys=True))
        if "error" in r:
            rep.violation("harness-error:c16-fs", r["error"][-300:], r, no_input=True)
        elif r["fails"]:
            rep.violation(f"file-systems:nested-keeps:{r['case']['kind']}:{c16_nested.classify(r)}",
                          f"[{', '.join(r['case']['other_fs'])} on the second file system {second_file_system()}] " + c16_nested.describe(r),
                          {"nested_case": r["case"], "module": r["module"], "fails": r["fails"][:8], "trace": r["trace"]})
    rep.sample({"file_systems": cases[-1]})
    on2 = [c for c in cases if c["other"]]
    return {"file_system_scenarios": len(cases), "file_system_scenarios_on_two_file_systems": len(on2),
            "file_system_placements_on_two_file_systems": len(set(c["placement"] for c in on2)), "file_system_nested_keep_scenarios": len(nested),
            "second_file_system": second_file_system() or "NONE FOUND: dimension skipped, controls only",
            "read_only_parents": "covered" if applicable("read-only-parents") else "skipped (permissions are not enforced for this user: root)"}


def replay(r):
    out = run_scenario(r["fs_case"])
    print(json.dumps({k: out.get(k) for k in ("case", "dirs", "st_dev", "second_file_system", "error")}, indent=1))
    print(json.dumps(out.get("fails"), indent=1)[:6000])
    return 1
