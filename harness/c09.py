"""C09 - dds.load always sees the latest kept value and invalidates its readers."""
import concurrent.futures as cf
import copy
import itertools
import json
import random

import common as C
import hist
import progs as P
import values as V

COQ_FILES = ("L4_Eval/DdsEval.v", "L4_Eval/RunEval.v", "L4_Eval/LoadProofs.v", "L3_Sig/SigTree.v", "L3_Sig/SigTreeProofs.v", "L4_Eval/SoundnessLoadA.v", "L4_Eval/SoundnessLoad.v", "Properties/C09.v", "Properties/C09b.v", "Properties/C09c.v")
PROPERTY_FILES = ("C09", "C09b", "C09c")
EXTRACTED = ("ConstHash", "ConstSig")
ALLOWED_AXIOMS = ()
i_, s_ = V.i_, V.s_

PLACEMENTS = ["root", "helper", "kept-function", "data-function"]
PRODUCERS = ["data-function-before", "keep-before", "after", "earlier-evaluation", "never"]


def spell_paths(prog, spelling):
    """The path "/p" of every keep / load statement is given through a module variable (a str or a pathlib.Path object)
    instead of a string literal; the functions that mention the variable read it."""
    if spelling == "literal":
        return prog
    prog = copy.deepcopy(prog)
    m = prog["modules"]["m0"]
    m["vars"]["PV_P"] = ["str", b"/p".hex()] if spelling == "str-variable" else ["ppath", b"/p".hex()]
    for f in m["funcs"]:
        for st in f["stmts"]:
            if st["k"] in ("keep", "load") and st["path"] == "/p":
                st["path_var"] = "PV_P"
                if "PV_P" not in f["reads"]:
                    f["reads"].append("PV_P")
    return prog


def build(placement, producer, arg_passing=False, n_loads=1):
    """Program with one dds.load("/p") at the given placement and a producer of "/p" of the given kind.
    Returns (prog, events-prefix that populates the store if needed)."""
    funcs = []
    # the producer function: reads VAR_P so that editing VAR_P changes what "/p" serves
    prod_is_data = producer in ("data-function-before", "after", "earlier-evaluation")
    funcs.append({"name": "prod", "params": [], "annot": "/p" if prod_is_data else None, "salt": "p0", "stmts": [], "reads": ["VAR_P"]})
    funcs.append({"name": "leaf", "params": [{"name": "a", "default": None}], "annot": None, "salt": "l0", "stmts": [], "reads": []})
    load = {"k": "load", "path": "/p"}
    reader_stmts = [copy.deepcopy(load) for _ in range(n_loads)]      # the same path may be loaded several times
    if arg_passing:
        reader_stmts.append({"k": "keep", "path": "/nested", "callee": ("m0", "leaf"), "pos": [["local", 0]], "kw": [], "layout": "single"})
    root_stmts = []

    def produce():
        if producer in ("data-function-before", "after"):
            return [{"k": "call", "callee": ("m0", "prod"), "args": []}]
        if producer in ("keep-before", "keep-alias-before", "keep-alias-after"):
            return [{"k": "keep", "path": "/p", "callee": ("m0", "prod"), "pos": [], "kw": [], "layout": "single"}]
        return []
    if producer in ("keep-alias-before", "keep-alias-after", "alias-of-earlier-evaluation"):
        # the producer function is also kept under a second path first: two keeps of one function in one evaluation
        root_stmts.append({"k": "keep", "path": "/alias", "callee": ("m0", "prod"), "pos": [], "kw": [], "layout": "single"})
    if producer in ("data-function-before", "keep-before", "keep-alias-before"):
        root_stmts += produce()
    if placement == "root":
        base = len(root_stmts)
        for st in reader_stmts:
            st = copy.deepcopy(st)
            if st["k"] == "keep":
                st["pos"] = [["local", base]]
            root_stmts.append(st)
    else:
        reader = {"name": "reader", "params": [], "annot": "/reader" if placement == "data-function" else None, "salt": "r0",
                  "stmts": reader_stmts, "reads": []}
        funcs.append(reader)
        if placement == "kept-function":
            root_stmts.append({"k": "keep", "path": "/reader", "callee": ("m0", "reader"), "pos": [], "kw": [], "layout": "single"})
        else:
            root_stmts.append({"k": "call", "callee": ("m0", "reader"), "args": []})
    if producer in ("after", "keep-alias-after"):
        root_stmts += produce()
    funcs.append({"name": "root", "params": [], "annot": None, "salt": "t0", "stmts": root_stmts, "reads": []})
    prog = {"pkg": "vpl", "ext_helpers": {}, "root": ("m0", "root"), "modules": {"m0": {"vars": {"VAR_P": i_(1)}, "funcs": funcs}}}
    return prog


def scenario(placement, producer, populated, arg_passing, n_loads=1, spelling="literal"):
    prog = spell_paths(build(placement, producer, arg_passing, n_loads), spelling)
    call = {"a": "call", "mod": "m0", "fn": "root", "style": "eval", "pos": [], "kw": []}
    prod_call = {"a": "call", "mod": "m0", "fn": "prod", "style": "direct", "pos": [], "kw": []}
    ev = [("prog", prog)]
    if producer in ("earlier-evaluation", "alias-of-earlier-evaluation") or populated:
        if P.find_func(prog, "m0", "prod").get("annot"):
            ev.append(("act", prod_call))
        else:
            ev.append(("act", {"a": "call", "mod": "m0", "fn": "prod", "style": "keep", "path": "/p", "pos": [], "kw": []}))
    ev.append(("act", call))
    ev.append(("act", call))
    # change what the producer depends on, re-produce (when produced by an earlier evaluation) and evaluate again
    p2 = copy.deepcopy(prog)
    p2["modules"]["m0"]["vars"]["VAR_P"] = i_(2)
    ev.append(("prog", p2))
    if producer == "earlier-evaluation":
        ev.append(("act", prod_call))
    if producer == "alias-of-earlier-evaluation":
        ev.append(("act", {"a": "call", "mod": "m0", "fn": "prod", "style": "keep", "path": "/p", "pos": [], "kw": []}))
    ev.append(("act", call))
    ev.append(("act", call))
    return ev


def expected_rejected(producer, populated):
    return producer in ("after", "never", "keep-alias-after")


def run_one(job):
    try:
        return hist.run_history(job["events"], store_kind="local")
    except Exception as e:  # noqa
        return {"error": str(e)[-1000:]}


RAW_MOD = '''import dds
def h():
    return "hval"
def g():
    return dds.keep('/q', h)
def mentions_but_never_calls():
    x = g
    return ('f', dds.load('/q'))
def old():
    return "old"
def loads_own_path():
    return ('f2', dds.load('/p'))
VAR = 1
def prod2():
    return ('p2', VAR)
def g2(x):
    return ('g2', x)
def inline_load():
    return dds.keep('/q2', g2, dds.load('/p2'))
def assigned_load():
    y = dds.load('/p2')
    return dds.keep('/q3', g2, y)
'''
RAW_RUN = '''import dds, sys, json
dds.accept_module("rawpk9")
dds.set_store("local", internal_dir=sys.argv[1] + "/i", data_dir=sys.argv[1] + "/d")
import rawpk9.m as m
from dds.structures import DDSException
out = {}
for name, thunk in (("byname-producer", lambda: dds.eval(m.mentions_but_never_calls)), ("prepare", lambda: dds.keep('/p', m.old)),
                    ("root-keep-loads-own-path", lambda: dds.keep('/p', m.loads_own_path))):
    try:
        out[name] = "ok:" + repr(thunk())
    except DDSException as e:
        out[name] = "dds:" + (e.error_code.name if getattr(e, "error_code", None) is not None else "NONE")
    except BaseException as e:
        out[name] = "exc:" + type(e).__name__
# a load written directly as an argument of a keep, the loaded path re-produced with another value in between
for v in (1, 2):
    m.VAR = v
    dds.keep('/p2', m.prod2)
    for name, fn in (("inline-load", m.inline_load), ("assigned-load", m.assigned_load)):
        try:
            out[f"{name}:{v}"] = "ok:" + repr(dds.eval(fn))
        except BaseException as e:
            out[f"{name}:{v}"] = "exc:" + type(e).__name__
print("@@" + json.dumps(out))
'''


def run_raw(rep):
    """Outside the generated grammar: a path whose only producer is a function that is mentioned by name but never called,
    and a top-level keep whose function loads the very path it is kept at: nothing has produced the path when it is read."""
    import os
    import shutil
    import tempfile
    base = tempfile.mkdtemp(prefix="c09raw_", dir=C.scratch_dir())
    try:
        os.makedirs(os.path.join(base, "rawpk9"))
        open(os.path.join(base, "rawpk9", "__init__.py"), "w").write("")
        open(os.path.join(base, "rawpk9", "m.py"), "w").write(RAW_MOD)
        open(os.path.join(base, "run.py"), "w").write(RAW_RUN)
        env = C.impl_env()
        env["PYTHONPATH"] = C.REPO + os.pathsep + base
        rc, out = C.sh([C.PY, os.path.join(base, "run.py"), base], env=env, cwd=base, timeout=120)
        line = [l for l in out.splitlines() if l.startswith("@@")]
        if not line:
            rep.violation("harness-error:c09raw", "raw scenario could not be run: " + out[-300:], {"out": out[-800:]}, no_input=True)
            return
        res = json.loads(line[-1][2:])
        for name in ("byname-producer", "root-keep-loads-own-path"):
            rep.case("raw:" + name)
            if not res[name].startswith("dds:"):
                rep.violation("read-before-produce:silently-returned:" + name, f"{name}: the evaluation reads a path that nothing has produced yet and "
                              f"returns {res[name][:60]} instead of being rejected with a DDS error", {"module": RAW_MOD, "results": res})
        for name, key in (("inline-load", "read-stale:inline-load-in-keep-argument"), ("assigned-load", "read-stale:load-assigned-then-passed-to-keep")):
            rep.case("raw:" + name)
            want = "ok:" + repr(("g2", ("p2", 2)))
            if res.get(name + ":2") != want:
                rep.violation(key, f"{name}: after /p2 was produced again with another value, the keep that receives dds.load('/p2') returned "
                              f"{res.get(name + ':2')} instead of {want}", {"module": RAW_MOD, "results": res})
    finally:
        shutil.rmtree(base, ignore_errors=True)


def run(rep, tier, seed, proof_ok):
    run_raw(rep)
    rep.rule = ("every placement of dds.load {root of the evaluated function, nested helper, function kept with dds.keep, data function} x "
                "producer of the path {data function earlier in the same evaluation, dds.keep earlier in the same evaluation, later in "
                "the same evaluation, an earlier evaluation, never; + the producer kept under two paths, the loaded one before / after the reader} x {path as string literal, through a str variable, through a pathlib.Path variable} x {fresh, populated store} x {loaded value only returned, loaded "
                "value passed to a nested keep} (+ the same path loaded two / three times by one reader); history: evaluate twice, change the producer's tracked variable, (re-produce,) evaluate "
                "twice; compared with the dds-free reference (value most recently kept in program order), with the Coq model, and "
                "with the expectation that read-before-produce / never-produced is rejected by a DDS error; exhaustive over this matrix; "
                "thread dimension (c09_threads.py): the thread that executes the dds.load / the kept reader / the producer's dds.keep x the same "
                "placements x producers x {fresh, populated} x {local, memory, local+lru store} x {dds.eval called from the main thread, from another "
                "thread}: the helper that loads the path (mentioned by name), the reader and / or the producer's keep run on {the caller's thread, "
                "ThreadPoolExecutor.submit, .map, threading.Thread + join, a pool that outlives the evaluation, a thread started by a thread, a "
                "Timer; two paths loaded in parallel on one pool with submit / map} and are waited for, so that program order stays defined; same "
                "history; compared with the dds-free execution of the same files (every evaluation and the paths read outside afterwards), with the "
                "expectations that an unchanged kept reader / producer is served from the store, that the kept reader runs again after the change, "
                "and that read-before-produce / never-produced is rejected by a DDS error and commits nothing; one deterministic slice per "
                "role (load / reader / keep on every kind of thread, rejected and earlier-evaluation producers from every kind of thread) + seeded "
                "random points of the whole product (10 quick, 400 thorough); "
                "nesting dimension (c09_nested.py): the loaded path is kept INSIDE a kept function, nesting depth 1-3 below the evaluated function "
                "(every level through dds.keep or as a data function; + the deepest function kept under two paths, + a sibling branch with its own "
                "nested path that no edit touches, + the evaluated function loading the deepest path after having produced it) x the pipeline "
                "evaluated through {dds.eval, a top-level dds.keep, a data function called at top level} x histories that come back to a state "
                "the store has seen {edit-revert, edit-revert-edit, two edits then back to the first version, another top-level producer keeps "
                "another function at the deepest path before the unchanged pipeline is evaluated again, edit-overwrite-revert, "
                "edit-revert-overwrite-same} x the edit {tracked variable read by, literal argument passed to} level 0..depth; one process per "
                "installed version; after every evaluation, in the same process and again from a fresh process, EVERY kept path (the one of the "
                "top call and every nested one) is loaded outside any evaluation, a reader of the nested paths {kept function, data function, "
                "root of an evaluated function, helper} is evaluated (some twice), and a later kept reader is evaluated from the fresh process; "
                "compared with the dds-free execution of the same files (every evaluation, load and reader) and with the Coq model, with the "
                "expectations that an evaluation repeated without change runs nothing kept again, that a kept reader is served from the store "
                "while the loaded paths serve the same content and runs again when they serve content not seen before; one third of "
                "{way of evaluating} x {depth} x {history} in the quick tier (the other dimensions rotating) + 4 seeded random points, the whole "
                "product of the three + 100 random points x {local store, local store behind the LRU cache of 3 entries} in the thorough tier; "
                "access dimension (c09_access.py): the WAY the code reaches dds.load / dds.keep x placement {kept function, helper of a kept function, "
                "root, helper, data function} x producer {dds.keep earlier in the same evaluation, an earlier evaluation, later in the same evaluation, "
                "never} x {fresh, populated} x {local, memory store}: the load (and / or the keep of the producer and of the reader) is spelled through "
                "{import dds, from dds import load, import dds as d, from dds import load as ld, alias variable ld = dds.load} x {at module level, "
                "inside the body of the function that uses it}, or the load sits in a helper module reached through {import lib, from lib import "
                "read_p, import lib as hl, import pkg.lib, from pkg import lib} x {at module level, inside the body}; history: (produce,) evaluate "
                "twice, change the producer's tracked variable, (re-produce,) evaluate twice, set the variable back, (re-produce,) evaluate, load "
                "every path outside; compared with the dds-free execution of the same files, with the expectations that an unchanged kept reader / "
                "producer is served from the store, that the kept reader runs again when the loaded path serves another result, that "
                "read-before-produce / never-produced is rejected by a DDS error and commits nothing - or that the form is refused loudly: EVERY "
                "evaluation of the history rejected with a DDS error (never accepted for module-level import dds); quick: every form of the load "
                "under a kept reader and read-before-produce, every form of the keep, one form throughout the module (70) + 8 seeded random "
                "points; thorough: forms of the load x placements x producers + forms of the keep x placements x producers (+ the same form for "
                "both) + 200 random points")
    jobs = []
    for placement, producer, populated, argp in itertools.product(PLACEMENTS, PRODUCERS, (False, True), (False, True)):
        if populated and producer in ("earlier-evaluation", "never"):
            continue
        jobs.append({"placement": placement, "producer": producer, "populated": populated, "arg_passing": argp,
                     "events": scenario(placement, producer, populated, argp)})
    # the same path loaded two / three times by one reader (repeated dependencies must not cancel or be dropped)
    for placement, producer, n_loads in itertools.product(PLACEMENTS, ("data-function-before", "keep-before", "earlier-evaluation"), (2, 3)):
        jobs.append({"placement": placement, "producer": producer, "populated": False, "arg_passing": n_loads == 3, "n_loads": n_loads,
                     "events": scenario(placement, producer, False, n_loads == 3, n_loads)})
    # one function kept under two paths in one evaluation, the loaded one before / after the reader (fresh and populated store)
    # the path given through a module variable holding a str / a pathlib.Path object (keep and load accept both)
    for placement, producer, spelling in itertools.product(PLACEMENTS, ("keep-before", "data-function-before", "after", "earlier-evaluation"), ("str-variable", "path-variable")):
        for populated in ((False, True) if producer != "earlier-evaluation" else (False,)):
            jobs.append({"placement": placement, "producer": producer, "populated": populated, "arg_passing": False, "spelling": spelling,
                         "events": scenario(placement, producer, populated, False, spelling=spelling)})
    # the loaded path comes from an earlier evaluation and the same function is kept under another path in this one (one signature, two paths)
    for placement in PLACEMENTS:
        jobs.append({"placement": placement, "producer": "alias-of-earlier-evaluation", "populated": False, "arg_passing": False,
                     "events": scenario(placement, "alias-of-earlier-evaluation", False, False)})
    for placement, producer, populated in itertools.product(PLACEMENTS, ("keep-alias-before", "keep-alias-after"), (False, True)):
        jobs.append({"placement": placement, "producer": producer, "populated": populated, "arg_passing": False,
                     "events": scenario(placement, producer, populated, False)})
    # the loaded path was never produced but is a strict prefix of a committed path (a directory of the data tree)
    for placement in PLACEMENTS:
        prog = build(placement, "earlier-evaluation")
        P.find_func(prog, "m0", "prod")["annot"] = "/p/sub"
        call = {"a": "call", "mod": "m0", "fn": "root", "style": "eval", "pos": [], "kw": []}
        prod_call = {"a": "call", "mod": "m0", "fn": "prod", "style": "direct", "pos": [], "kw": []}
        jobs.append({"placement": placement, "producer": "never", "populated": True, "arg_passing": False, "prefix_of_committed": True,
                     "events": [("prog", prog), ("act", prod_call), ("act", call), ("act", {"a": "load", "path": "/p"})]})
    with cf.ThreadPoolExecutor(max_workers=C.NPROC) as ex:
        results = list(ex.map(run_one, jobs))
    outcomes = {}
    for job, recs in zip(jobs, results):
        name = f"{job['placement']}/{job['producer']}/{'populated' if job['populated'] else 'fresh'}/{'arg' if job['arg_passing'] else 'ret'}" + \
            (f"/loads={job['n_loads']}" if job.get("n_loads", 1) > 1 else "") + (f"/{job['spelling']}" if job.get("spelling") else "") + ("/prefix-of-committed-path" if job.get("prefix_of_committed") else "")
        rep.case(name)
        if isinstance(recs, dict):
            rep.violation("harness-error:c09", f"{name}: " + recs["error"][-300:], job, no_input=True)
            continue
        replay = dict(job, name=name)
        calls = [r for r in recs if r["act"].get("fn") == "root"]
        for i, r in enumerate(recs):
            d = hist.compare(r)
            if d:
                rep.violation("model-mismatch:" + d[0][0], f"{name}: implementation and model disagree at action {i}: {json.dumps(d[:2])[:300]}", dict(replay, action=i))
        rejected = expected_rejected(job["producer"], job["populated"])
        for j, r in enumerate(calls):
            out = r["impl"]["out"]
            outcomes[out.split(":")[0] + (":" + out.split(":")[1] if not out.startswith("ok") else "")] = outcomes.get(out.split(":")[0] + (":" + out.split(":")[1] if not out.startswith("ok") else ""), 0) + 1
            if rejected:
                if not out.startswith("dds:"):
                    kind = "low-level-exception" if out.startswith("exc:") or out.startswith("low:") else "silently-used-previous-content"
                    rep.violation(f"read-before-produce:{kind}:{job['placement']}:{job['producer']}",
                                  f"{name}: an evaluation that reads /p without having produced it must be rejected with a DDS error, got {out[:80]}", dict(replay, call=j))
                elif r["impl"]["log"]:
                    rep.violation("rejected-but-ran", f"{name}: rejected evaluation executed {r['impl']['log']}", dict(replay, call=j))
            else:
                if out != r["ref"]["out"]:
                    kind = "exception" if not out.startswith("ok:") else "stale-or-wrong-value"
                    rep.violation(f"load-{kind}:{job['placement']}:{job['producer']}:{'arg' if job['arg_passing'] else 'ret'}",
                                  f"{name}: evaluation returned {out[:90]} but plain execution gives {r['ref']['out'][:90]}", dict(replay, call=j))
        # unchanged second evaluation must not re-run the kept reader
        if not rejected and job["placement"] in ("kept-function", "data-function") and len(calls) >= 2 and calls[0]["impl"]["out"].startswith("ok:"):
            if "reader" in calls[1]["impl"]["log"]:
                rep.violation("reader-recomputed-unchanged", f"{name}: the kept reader ran again although /p serves the same result", replay)
    import c09_access
    import c09_nested
    import c09_threads
    rep.extra["input_distribution"] = {"scenarios": len(jobs), "outcomes_of_root_calls": outcomes, "threads": c09_threads.run(rep, tier, seed, proof_ok),
                                       "nested": c09_nested.run(rep, tier, seed, proof_ok), "access": c09_access.run(rep, tier, seed, proof_ok)}
    rep.sample({"scenario": "root/keep-before/fresh/ret", "events_kinds": [e[0] if e[0] != "act" else e[1]["a"] + ":" + e[1].get("fn", "") for e in jobs[0]["events"]]})


def replay(path):
    r = json.load(open(path))["replay"]
    if "tscen" in r:
        import c09_threads
        return c09_threads.replay(r)
    if "nscen" in r:
        import c09_nested
        return c09_nested.replay(r)
    if "ascen" in r:
        import c09_access
        return c09_access.replay(r)
    import c01
    return c01.replay(path)
