"""Implementation driver for the small pure decision procedures (C11 overlap, C14 accept, C15 stage parsing,
C13 argument contexts).  stdin: {"kind":..., "cases":[...]}"""
import ast
import json
import sys
from collections import OrderedDict
from pathlib import PurePosixPath


def exc_name(e):
    from dds.structures import DDSException
    if isinstance(e, DDSException):
        c = getattr(e, "error_code", None)
        return "dds:" + (c.name if c is not None else "NONE")
    return "low:" + type(e).__name__


def overlap(cases):
    from dds.structures_utils import FunctionInteractionsUtils as FIU
    out = []
    for paths in cases:
        try:
            r = FIU.non_terminal_leaves(list(paths), None)
            out.append(sorted(r))
        except BaseException as e:
            out.append(exc_name(e))
    return out


def authorized(cases):
    import types
    from dds._eval_ctx import EvalMainContext
    from dds.structures import CanonicalPath
    out = []
    for c in cases:
        ctx = EvalMainContext(types.ModuleType("m"), set(c["accepted"]), {}, OrderedDict())
        cp = CanonicalPath(PurePosixPath("/".join(c["parts"])))
        try:
            out.append(bool(ctx.is_authorized_path(cp)))
        except BaseException as e:
            out.append(exc_name(e))
    return out


def authorized_seq(cases):
    """several queries on ONE evaluation context (what an evaluation does)"""
    import types
    from dds._eval_ctx import EvalMainContext
    from dds.structures import CanonicalPath
    out = []
    for c in cases:
        ctx = EvalMainContext(types.ModuleType("m"), set(c["accepted"]), {}, OrderedDict())
        res = []
        for q in c["queries"]:
            try:
                res.append(bool(ctx.is_authorized_path(CanonicalPath(PurePosixPath("/".join(q))))))
            except BaseException as e:
                res.append(exc_name(e))
        out.append(res)
    return out


def stages(cases):
    from dds._api import _parse_stages
    from dds.structures import ProcessingStage
    out = []
    for c in cases:
        if c is None:
            arg = None
        else:
            arg = []
            for a in c:
                if a[0] == "name":
                    arg.append(a[1])
                elif a[0] == "enum":
                    arg.append(ProcessingStage[a[1]])
                else:
                    arg.append({"int": 3, "none": None, "bytes": b"eval"}[a[1]])
        try:
            r = _parse_stages(arg)
            out.append([s.name for s in r])
        except BaseException as e:
            out.append(exc_name(e))
    return out


def argctx(cases):
    """Each case: {"def": "def f(a, b=1): pass", "calls":[{"pos":[enc..],"kw":[[name,enc]..],"ast":bool}]}"""
    from drive_c05 import build
    from dds.fun_args import get_arg_ctx, get_arg_ctx_ast
    out = []
    for c in cases:
        ns = {}
        exec(c["def"], ns)
        f = ns["f"]
        res = []
        for call in c["calls"]:
            try:
                if call.get("ast"):
                    # the call as it would be seen in source: f(<literals>)
                    src = call["src"]
                    node = ast.parse(src, mode="eval").body
                    kwargs = OrderedDict([(k.arg, k.value) for k in node.keywords])
                    r = get_arg_ctx_ast(f, node.args, kwargs)
                    res.append([[n, h] for n, h in r.items()])
                else:
                    pos = tuple(build(x) for x in call["pos"])
                    kw = dict((n, build(x)) for n, x in call["kw"])
                    r = get_arg_ctx(f, pos, kw)
                    res.append([[n, h] for n, h in r.named_args.items()])
            except BaseException as e:
                res.append(exc_name(e))
        out.append(res)
    return out


def main():
    payload = json.load(sys.stdin)
    fn = {"overlap": overlap, "authorized": authorized, "authorized_seq": authorized_seq, "stages": stages, "argctx": argctx}[payload["kind"]]
    print("@@RESULT@@" + json.dumps(fn(payload["cases"])))


if __name__ == "__main__":
    sys.path.insert(0, __import__("os").path.dirname(__import__("os").path.abspath(__file__)))
    main()
