"""Implementation driver for C05/C13 value hashing: runs dds.fun_args.dds_hash from /repo on encoded values.
stdin: {"cases":[{"v":<enc>,"max":<int|null|"default">}...]}  ->  @@RESULT@@[...]"""
import dataclasses
import datetime
import json
import sys
from collections import OrderedDict
from pathlib import PurePosixPath


def build(e):
    t = e[0]
    if t == "none":
        return None
    if t == "bool":
        return bool(e[1])
    if t == "int":
        return int(e[1])
    if t == "float":
        import struct
        return struct.unpack("!d", bytes.fromhex(e[1]))[0]
    if t in ("str", "strbad"):
        return bytes.fromhex(e[1]).decode("utf-8", "surrogatepass")
    if t == "list":
        return [build(x) for x in e[1]]
    if t == "tuple":
        return tuple(build(x) for x in e[1])
    if t == "path":
        return PurePosixPath(bytes.fromhex(e[1]).decode("utf-8"))
    if t == "dict":
        return dict((build(k), build(v)) for (k, v) in e[1])
    if t == "odict":
        return OrderedDict((build(k), build(v)) for (k, v) in e[1])
    if t == "data":
        cls = dataclasses.make_dataclass(e[1], [(n, object) for (n, _) in e[2]])
        return cls(*[build(v) for (_, v) in e[2]])
    if t == "date":
        return eval(e[1], {"datetime": datetime})
    if t == "canon":
        from dds.structures import CanonicalPath
        return CanonicalPath(PurePosixPath(e[1]))
    if t == "other":
        return {"bytes": b"x", "set": {1}, "object": object(), "complex": 1j, "frozenset": frozenset([1]),
                "bytearray": bytearray(b"x"), "range": range(3)}[e[1]]
    raise ValueError(t)


def outcome(f):
    from dds.structures import DDSException
    try:
        return {"r": "ok", "h": f()}
    except DDSException as ex:
        code = getattr(ex, "error_code", None)
        return {"r": "dds", "code": code.name if code is not None else "NONE"}
    except BaseException as ex:  # low-level exception escaping dds
        return {"r": "low", "exc": type(ex).__module__ + "." + type(ex).__name__}


def main():
    import dds
    from dds.fun_args import dds_hash
    payload = json.load(sys.stdin)
    res = []
    for c in payload["cases"]:
        mx = c.get("max", "default")
        if mx == "default":
            dds.reset_option("hash.max_sequence_size")
        else:
            dds.set_option("hash.max_sequence_size", mx)
        try:
            v = build(c["v"])
        except Exception as ex:
            res.append({"r": "build-error", "exc": repr(ex)})
            continue
        if c["v"][0] in ("dict", "odict") and len(v) != len(c["v"][1]):
            res.append({"r": "skip"})
            continue
        res.append(outcome(lambda: dds_hash(v)))
    print("@@RESULT@@" + json.dumps(res))


if __name__ == "__main__":
    main()
