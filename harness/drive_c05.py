"""Implementation driver for C05/C13 value hashing: runs dds.fun_args.dds_hash from /repo on encoded values.
stdin: {"cases":[{"v":<enc>,"max":<int|null|"default">}...]}  ->  @@RESULT@@[...]
Values with one extra trailing element (see harness/c05_decl.py) are instances of DECLARED classes: dataclasses
written as source text and exec'ed, namedtuples, subclasses of the builtin types, dict subclasses, enum members."""
import collections
import copy
import dataclasses
import datetime
import enum
import json
import struct
import sys
import typing
from collections import OrderedDict
from pathlib import PurePosixPath


class ViewMismatch(Exception):
    """The harness's expectation of dataclasses.fields() / values disagrees with plain Python (a harness error)."""


def mangle(cname, n):
    if n.startswith("__") and not n.endswith("__") and cname.lstrip("_"):
        return "_" + cname.lstrip("_") + n
    return n


def class_source(decl, consts):
    """Source text of the chain of dataclasses of a declaration; constants go through the list `consts` (_v[i])."""
    def const(e, fresh=False):
        consts.append(build(e))
        return ("copy.deepcopy(_v[%d])" if fresh else "_v[%d]") % (len(consts) - 1)

    lines, prev, ivars, kinds = [], None, [], {}
    for ci, c in enumerate(decl["classes"]):
        lines.append("@dataclasses.dataclass(%s)" % ", ".join("%s=%r" % kv for kv in sorted(c["params"].items())))
        lines.append("class %s%s:" % (c["name"], "(%s)" % prev if prev else ""))
        body = []
        for m in c["members"]:
            n, k, d = m["n"], m["k"], m.get("default")
            if k == "method":
                body.append("def %s(self):\n        return 1" % n)
            elif k == "property":
                body.append("@property\n    def %s(self):\n        return 2" % n)
            elif k == "attr":
                body.append("%s = %s" % (n, const(d[1])))
            elif k == "classvar":
                body.append("%s: ClassVar[object] = %s" % (n, const(d[1])))
            elif k == "initvar":
                body.append("%s: InitVar[object]" % n + (" = %s" % const(d[1]) if d is not None else ""))
                if mangle(c["name"], n) not in ivars:
                    ivars.append(mangle(c["name"], n))
                kinds[mangle(c["name"], n)] = k
            else:
                opts = ["%s=%r" % (f, m[f]) for (f, dv) in (("init", True), ("compare", True), ("repr", True), ("hash", None),
                                                           ("kw_only", False)) if m.get(f, dv) != dv]
                if d is not None and d[0] == "f":
                    opts.insert(0, "default_factory=lambda: %s" % const(d[1], fresh=True))
                elif d is not None and opts:
                    opts.insert(0, "default=%s" % const(d[1]))
                if opts:
                    body.append("%s: object = field(%s)" % (n, ", ".join(opts)))
                else:
                    body.append("%s: object" % n + (" = %s" % const(d[1]) if d is not None else ""))
                kinds[mangle(c["name"], n)] = k
        if ci == len(decl["classes"]) - 1 and (ivars or decl.get("post")):
            body.append("def __post_init__(self%s):" % "".join(", " + v for v in ivars))
            for (t, src) in decl.get("post", []):
                if src[0] == "const":
                    rhs = const(src[1], fresh=True)
                else:
                    rhs = src[1] if kinds.get(src[1]) == "initvar" else "getattr(self, %r)" % src[1]
                body.append("    object.__setattr__(self, %r, %s)" % (t, rhs))
            body.append("    pass")
        lines += ["    " + b for b in (body or ["pass"])]
        lines.append("")
        prev = c["name"]
    return "\n".join(lines)


def same(a, b):
    """Structural equality of two separately built values (classes are re-created by every build: compared by name
    and fields; floats by their bits)."""
    if dataclasses.is_dataclass(a) and dataclasses.is_dataclass(b) and not isinstance(a, type):
        fa, fb = dataclasses.fields(a), dataclasses.fields(b)
        return (type(a).__name__ == type(b).__name__ and [f.name for f in fa] == [f.name for f in fb]
                and all(same(getattr(a, f.name), getattr(b, f.name)) for f in fa))
    if type(a).__name__ != type(b).__name__:
        return False
    if isinstance(a, float):
        return struct.pack("!d", a) == struct.pack("!d", b)
    if isinstance(a, (list, tuple)):
        return len(a) == len(b) and all(same(x, y) for (x, y) in zip(a, b))
    if isinstance(a, dict):
        return len(a) == len(b) and all(same(k1, k2) and same(v1, v2) for ((k1, v1), (k2, v2)) in zip(a.items(), b.items()))
    if isinstance(a, (int, str, bytes, PurePosixPath, datetime.date, datetime.time, datetime.timedelta, datetime.tzinfo)):
        return a == b
    return True


def build_dataclass(e):
    decl = e[3]
    consts = []
    src = class_source(decl, consts)
    ns = {"dataclasses": dataclasses, "field": dataclasses.field, "InitVar": dataclasses.InitVar, "ClassVar": typing.ClassVar,
          "copy": copy, "_v": consts}
    exec(compile(src, "<declared %s>" % e[1], "exec"), ns)
    obj = ns[e[1]](**dict((n, build(v)) for (n, v) in decl["args"]))
    for (n, v) in decl.get("set", []) + decl.get("attrs", []):
        object.__setattr__(obj, n, build(v))
    # the expectation of the harness (e[2]) against plain Python: fields(), getattr, asdict
    unset = decl.get("unset", [])
    plain = [(f.name, getattr(obj, f.name)) for f in dataclasses.fields(obj) if f.name not in unset]
    if [n for (n, _) in plain] != [n for (n, _) in e[2]]:
        raise ViewMismatch("fields %r expected %r\n%s" % ([n for (n, _) in plain], [n for (n, _) in e[2]], src))
    for (n, v), (_, ev) in zip(plain, e[2]):
        if not same(v, build(ev)):
            raise ViewMismatch("field %s = %r expected %r\n%s" % (n, v, ev, src))
    if not unset:
        try:
            keys = list(dataclasses.asdict(obj).keys())
        except Exception:
            keys = None
        if keys is not None and keys != [n for (n, _) in e[2]]:
            raise ViewMismatch("asdict keys %r expected %r" % (keys, [n for (n, _) in e[2]]))
    return obj


def build_decorated(e, x):
    """x = e[-1]: how the plain value of e is dressed (namedtuple, subclass, dict class, enum member)."""
    base = build(e[:2])
    if "nt" in x:
        return collections.namedtuple(x["nt"], x["names"])(*base)
    if "cls" in x:
        d = collections.defaultdict(list) if x["cls"] == "defaultdict" else collections.Counter()
        dict.update(d, base)
        return d
    if "enum" in x:
        if isinstance(base, int):
            return enum.IntEnum("IE", {"A": base, "B": base + 1}).A
        return enum.Enum("SE", {"A": base, "B": base + "_"}, type=str).A
    if "sub" in x:
        return type("Sub" + type(base).__name__, (type(base),), {})(base)
    raise ValueError(x)


def build(e):
    t = e[0]
    if t == "data" and len(e) > 3:
        return build_dataclass(e)
    if len(e) > 2 and isinstance(e[-1], dict):
        return build_decorated(e, e[-1])
    if t == "none":
        return None
    if t == "bool":
        return bool(e[1])
    if t == "int":
        return int(e[1])
    if t == "float":
        import struct
        return struct.unpack("!d", bytes.fromhex(e[1]))[0]
    if t in ("str", "strbad"):
        return bytes.fromhex(e[1]).decode("utf-8", "surrogatepass")
    if t == "list":
        return [build(x) for x in e[1]]
    if t == "tuple":
        return tuple(build(x) for x in e[1])
    if t == "path":
        return PurePosixPath(bytes.fromhex(e[1]).decode("utf-8"))
    if t == "dict":
        return dict((build(k), build(v)) for (k, v) in e[1])
    if t == "odict":
        return OrderedDict((build(k), build(v)) for (k, v) in e[1])
    if t == "data":
        cls = dataclasses.make_dataclass(e[1], [(n, object) for (n, _) in e[2]])
        return cls(*[build(v) for (_, v) in e[2]])
    if t == "date":
        return eval(e[1], {"datetime": datetime})
    if t == "canon":
        from dds.structures import CanonicalPath
        return CanonicalPath(PurePosixPath(e[1]))
    if t == "other":
        if e[1] == "enum":
            return enum.Enum("E", {"A": 1, "B": 2}).A
        return {"bytes": b"x", "set": {1}, "object": object(), "complex": 1j, "frozenset": frozenset([1]),
                "bytearray": bytearray(b"x"), "range": range(3)}[e[1]]
    raise ValueError(t)


def outcome(f):
    from dds.structures import DDSException
    try:
        return {"r": "ok", "h": f()}
    except DDSException as ex:
        code = getattr(ex, "error_code", None)
        return {"r": "dds", "code": code.name if code is not None else "NONE"}
    except BaseException as ex:  # low-level exception escaping dds
        return {"r": "low", "exc": type(ex).__module__ + "." + type(ex).__name__}


def main():
    import dds
    from dds.fun_args import dds_hash
    payload = json.load(sys.stdin)
    res = []
    for c in payload["cases"]:
        mx = c.get("max", "default")
        if mx == "default":
            dds.reset_option("hash.max_sequence_size")
        else:
            dds.set_option("hash.max_sequence_size", mx)
        try:
            v = build(c["v"])
        except Exception as ex:
            res.append({"r": "build-error", "exc": repr(ex)[:2000]})
            continue
        if c["v"][0] in ("dict", "odict") and len(v) != len(c["v"][1]):
            res.append({"r": "skip"})
            continue
        res.append(outcome(lambda: dds_hash(v)))
    print("@@RESULT@@" + json.dumps(res))


if __name__ == "__main__":
    main()
