"""Shared machinery for the dds_py verification checks (see /verif/DESIGN.md section 3)."""
import concurrent.futures
import fcntl
import hashlib
import json
import os
import re
import shutil
import subprocess
import shlex
import sys
import tempfile
import time

VERIF = os.path.dirname(os.path.dirname(os.path.abspath(__file__)))
REPO = os.environ.get("DDS_REPO", "/repo")
COQ = os.path.join(VERIF, "coq")
THEORIES = os.path.join(COQ, "theories")
PY = "/venv/bin/python"
HARNESS = os.path.join(VERIF, "harness")
NPROC = min(16, os.cpu_count() or 4)

FORBIDDEN = re.compile(
    r"\b(Admitted|admit|Axiom|Axioms|Parameter|Parameters|Conjecture|Hypothesis|Variable)\b|Unset\s+Guard|bypass_check|type-in-type|Admit\s+Obligations"
)

_scratch = None


def scratch_dir():
    global _scratch
    if _scratch is None:
        _scratch = tempfile.mkdtemp(prefix="ddsverif_")
        import atexit

        atexit.register(lambda: shutil.rmtree(_scratch, ignore_errors=True))
    return _scratch


def sh(cmd, timeout=600, env=None, cwd=None, inp=None):
    """Run a command, return (rc, stdout+stderr).  rc=124 on timeout."""
    try:
        p = subprocess.run(
            cmd,
            shell=isinstance(cmd, str),
            cwd=cwd,
            env=env,
            input=inp,
            stdout=subprocess.PIPE,
            stderr=subprocess.STDOUT,
            timeout=timeout,
            text=True,
        )
        return p.returncode, p.stdout
    except subprocess.TimeoutExpired as e:
        out = e.stdout or ""
        if isinstance(out, bytes):
            out = out.decode("utf-8", "replace")
        return 124, out + "\n[timeout]"


def impl_env(hashseed="0", extra=None):
    env = dict(os.environ)
    env["PYTHONPATH"] = REPO
    env["PYTHONHASHSEED"] = str(hashseed)
    env["PYTHONDONTWRITEBYTECODE"] = "1"
    env["TJHUNTER_DDS_PY_VERIF"] = "1"
    env.pop("PYTHONSTARTUP", None)
    if extra:
        env.update(extra)
    return env


def run_driver(driver, payload, hashseed="0", timeout=600, cwd=None, extra_env=None):
    """Run harness/<driver> under /venv/bin/python against /repo's working tree.
    payload (JSON-serialisable) goes to stdin; JSON comes back on the last stdout line."""
    path = os.path.join(HARNESS, driver)
    rc, out = sh(
        [PY, path],
        timeout=timeout,
        env=impl_env(hashseed, extra_env),
        cwd=cwd or scratch_dir(),
        inp=json.dumps(payload),
    )
    lines = [l for l in out.splitlines() if l.startswith("@@RESULT@@")]
    if not lines:
        raise RuntimeError(f"driver {driver} failed rc={rc}:\n{out[-4000:]}")
    return json.loads(lines[-1][len("@@RESULT@@"):])


def run_driver_raw(driver, payload, hashseed="0", timeout=600, cwd=None, extra_env=None):
    """Like run_driver but returns (rc, result-or-None): the child may have been made to crash."""
    path = os.path.join(HARNESS, driver)
    rc, out = sh([PY, path], timeout=timeout, env=impl_env(hashseed, extra_env), cwd=cwd or scratch_dir(), inp=json.dumps(payload))
    lines = [l for l in out.splitlines() if l.startswith("@@RESULT@@")]
    return rc, (json.loads(lines[-1][len("@@RESULT@@"):]) if lines else None), out


# --------------------------------------------------------------------------- Coq


def _coq_files():
    res = []
    for d, _, fs in os.walk(THEORIES):
        for f in fs:
            if f.endswith(".v"):
                res.append(os.path.relpath(os.path.join(d, f), COQ))
    return sorted(res)


def coq_build(clean=False, timeout=3000):
    """Full .vo build of the development (coq_makefile + make -k).  Serialised by a lock."""
    os.makedirs(os.path.join(COQ, ".lock.d"), exist_ok=True)
    with open(os.path.join(COQ, ".lock.d", "lock"), "w") as lk:
        fcntl.flock(lk, fcntl.LOCK_EX)
        files = _coq_files()
        proj = "-Q theories DDS\n" + "\n".join(files) + "\n"
        pp = os.path.join(COQ, "_CoqProject")
        old = open(pp).read() if os.path.exists(pp) else None
        if old != proj or not os.path.exists(os.path.join(COQ, "Makefile")):
            open(pp, "w").write(proj)
            rc, out = sh("coq_makefile -f _CoqProject -o Makefile", cwd=COQ, timeout=120)
            if rc != 0:
                return False, out
        if clean:
            sh("make clean", cwd=COQ, timeout=300)
        rc, out = sh(f"make -k -j{NPROC}", cwd=COQ, timeout=timeout)
        return rc == 0, out


def vo_current(relv):
    """True iff theories/<relv> has an up-to-date .vo."""
    v = os.path.join(THEORIES, relv)
    vo = v[:-2] + ".vo"
    return os.path.exists(vo) and os.path.getmtime(vo) >= os.path.getmtime(v)


def coqc(path, timeout=600):
    # generated case files hold large literal terms: coqc gets the largest stack the hard limit allows
    return sh("ulimit -s $(ulimit -H -s) 2>/dev/null; exec coqc -Q " + shlex.quote(THEORIES) + " DDS " + shlex.quote(path), timeout=timeout, cwd=os.path.dirname(path))


def check_property_file(prop, allowed_axioms=()):
    """Recompile Properties/<prop>.v, parse the Print Assumptions output.
    Returns dict(ok, theorems, closed, axioms, log)."""
    src = os.path.join(THEORIES, "Properties", f"{prop}.v")
    text = open(src).read()
    n_pa = len(re.findall(r"^\s*Print Assumptions\s+\w+", text, re.M))
    thms = re.findall(r"^\s*(?:Theorem|Corollary)\s+(\w+)", text, re.M)
    # compile a copy so that the .vo of the tree is not disturbed by concurrent checks
    d = tempfile.mkdtemp(prefix="prop_", dir=scratch_dir())
    dst = os.path.join(d, f"{prop}_chk.v")
    shutil.copy(src, dst)
    rc, out = coqc(dst, timeout=900)
    closed = len(re.findall(r"Closed under the global context", out))
    axioms = []
    for m in re.finditer(r"Axioms:\n((?:.+\n?)+?)(?=\n\S|\Z)", out):
        for l in m.group(1).splitlines():
            mm = re.match(r"^(\S+)\s*:", l)
            if mm:
                axioms.append(mm.group(1))
    bad = sorted(set(a for a in axioms if a not in allowed_axioms))
    ok = rc == 0 and not bad and (closed + len(re.findall(r"^Axioms:", out, re.M))) == n_pa and n_pa >= 1
    return dict(ok=ok, rc=rc, theorems=thms, n_print_assumptions=n_pa, closed=closed,
                axioms=sorted(set(axioms)), bad_axioms=bad, log=out[-6000:])


def grep_forbidden():
    """No Admitted/Axiom/... anywhere in the development (Section Variables/Hypotheses are
    allowed only inside Sections: checked structurally)."""
    hits = []
    for rel in _coq_files():
        text = open(os.path.join(COQ, rel)).read()
        text_nc = re.sub(r"\(\*.*?\*\)", lambda m: " " * len(m.group(0)), text, flags=re.S)
        depth = 0
        for ln, line in enumerate(text_nc.splitlines(), 1):
            if re.match(r"^\s*(Section|Module\s+Type)\s+\w+", line):
                depth += 1
            for m in FORBIDDEN.finditer(line):
                w = m.group(0)
                if w in ("Variable", "Hypothesis") and depth > 0:
                    continue
                if w in ("Variable", "Hypothesis", "Parameter", "Axiom") and re.search(r"Print Assumptions", line):
                    continue
                hits.append(f"{rel}:{ln}: {line.strip()}")
            if re.match(r"^\s*End\s+\w+\s*\.", line) and depth > 0:
                depth -= 1
    return hits


_EVAL_RE = re.compile(r'=\s*"((?:[^"]|"")*)"(?:%string)?\s*:\s*string', re.S)


def coq_eval_strings(prelude, exprs, shard=400, timeout=900, label="cases"):
    """Evaluate Coq terms of type string with vm_compute; returns the list of results.
    Results must not contain newlines.  Sharded over coqc processes."""
    if not exprs:
        return []
    d = tempfile.mkdtemp(prefix=f"{label}_", dir=scratch_dir())
    chunks = [exprs[i:i + shard] for i in range(0, len(exprs), shard)]

    def run(ci):
        i, chunk = ci
        p = os.path.join(d, f"{label}_{i}.v")
        with open(p, "w") as f:
            f.write(prelude + "\n")
            for e in chunk:
                f.write(f"Eval vm_compute in ({e}).\n")
        rc, out = coqc(p, timeout=timeout)
        if rc != 0:
            raise RuntimeError(f"coqc failed on {p} rc={rc}:\n{out[-3000:]}")
        res = [re.sub(r"\s*\n\s*", "", m.group(1)).replace('""', '"') for m in _EVAL_RE.finditer(out)]
        if len(res) != len(chunk):
            raise RuntimeError(f"coq output parse mismatch in {p}: {len(res)} vs {len(chunk)}\n{out[:2000]}")
        return res

    with concurrent.futures.ThreadPoolExecutor(max_workers=NPROC) as ex:
        parts = list(ex.map(run, enumerate(chunks)))
    shutil.rmtree(d, ignore_errors=True)
    return [r for part in parts for r in part]


def hexs(b):
    """Python bytes -> Coq term of type bytes."""
    if isinstance(b, str):
        b = b.encode("utf-8", "surrogatepass")
    return f'(hx "{b.hex()}")'


# --------------------------------------------------------------------------- AST digests / drift


def ast_digest(relpath, names=None):
    """Digest of the AST dump of selected top-level defs (or whole file) of a /repo source file."""
    import ast

    src = open(os.path.join(REPO, relpath)).read()
    tree = ast.parse(src)
    if names:
        parts = []
        for node in ast.walk(tree):
            if isinstance(node, (ast.FunctionDef, ast.ClassDef, ast.Assign)) and (
                getattr(node, "name", None) in names
                or (isinstance(node, ast.Assign) and any(getattr(t, "id", None) in names for t in node.targets))
            ):
                parts.append(ast.dump(node))
        dump = "\n".join(parts)
    else:
        dump = ast.dump(tree)
    return hashlib.sha256(dump.encode()).hexdigest()[:16]


# --------------------------------------------------------------------------- findings / evidence


def load_known_findings():
    p = os.path.join(VERIF, "known_findings.json")
    if not os.path.exists(p):
        return []
    return json.load(open(p)).get("findings", [])


class Report:
    """Collects what a check did; writes evidence; prints VIOLATION / KNOWN-FINDING lines."""

    def __init__(self, prop, tier, seed):
        self.prop, self.tier, self.seed = prop, tier, seed
        self.t0 = time.time()
        self.obligations = 0
        self.discharged = 0
        self.obligation_names = []
        self.evaluations = 0
        self.nontrivial = set()
        self.samples = []
        self.rule = ""
        self.trusted = []
        self.assumptions = []
        self.extra = {}
        self.violations = []  # (key, description, replay_obj)
        self.known_hits = []
        self.known = [f for f in load_known_findings() if f.get("property") == prop and f.get("status") == "known"]
        self.checker_cmd = ""

    # -- proof side
    def obligation(self, name, ok, detail=""):
        self.obligations += 1
        self.obligation_names.append({"name": name, "ok": bool(ok)})
        if ok:
            self.discharged += 1
        return ok

    # -- correspondence side
    def case(self, key, nontrivial=True):
        self.evaluations += 1
        if nontrivial:
            self.nontrivial.add(key if isinstance(key, str) else json.dumps(key, sort_keys=True, default=str))

    def sample(self, s, cap=6):
        if len(self.samples) < cap:
            self.samples.append(s)

    def violation(self, key, what, replay, no_input=False):
        """key identifies the failing input class; matched against known_findings.json."""
        for f in self.known:
            if f.get("key") == key or (f.get("key_prefix") and key.startswith(f["key_prefix"])):
                if f["id"] not in [k["id"] for k in self.known_hits]:
                    self.known_hits.append({"id": f["id"], "what": f.get("what", what), "key": key})
                return False
        self.violations.append({"key": key, "what": what, "replay": replay, "no_input": no_input})
        return True

    def finish(self):
        wall = time.time() - self.t0
        os.makedirs(os.path.join(VERIF, "evidence"), exist_ok=True)
        rc = 0
        for k in self.known_hits:
            print(f"KNOWN-FINDING: property={self.prop} {k['id']} {k['what']}")
        seen = set()
        for i, v in enumerate(self.violations):
            if v["key"] in seen:
                continue
            seen.add(v["key"])
            rdir = os.path.join(VERIF, "evidence", "replays")
            os.makedirs(rdir, exist_ok=True)
            rp = os.path.join(rdir, f"{self.prop}_{len(seen)}.json")
            json.dump({"property": self.prop, "key": v["key"], "what": v["what"], "replay": v["replay"],
                       "seed": self.seed, "tier": self.tier}, open(rp, "w"), indent=1, default=str)
            tail = " no-failing-input-found" if v["no_input"] else ""
            print(f"VIOLATION property={self.prop} replay={rp}{tail}")
            print(f"  what: {v['what']}")
            rc = 1
        cov = {
            "obligations": self.obligations,
            "discharged": self.discharged,
            "obligation_list": self.obligation_names,
            "checker_cmd": self.checker_cmd or f"coqc -Q {THEORIES} DDS {THEORIES}/Properties/{self.prop}.v (after make -C {COQ})",
            "trusted_base": self.trusted,
            "evaluations": self.evaluations,
            "distinct_nontrivial": len(self.nontrivial),
            "rule": self.rule,
            "samples": self.samples,
        }
        cov.update(self.extra)
        ev = {
            "property_id": self.prop,
            "tier": self.tier,
            "seed": self.seed,
            "level": "proof",
            "coverage": cov,
            "assumptions": self.assumptions,
            "wall_s": round(wall, 2),
            "violations": len(seen),
            "known_findings_reported": [k["id"] for k in self.known_hits],
        }
        json.dump(ev, open(os.path.join(VERIF, "evidence", f"{self.prop}.json"), "w"), indent=1, default=str)
        print(f"[{self.prop}] tier={self.tier} seed={self.seed} obligations={self.discharged}/{self.obligations} "
              f"cases={self.evaluations} nontrivial={len(self.nontrivial)} violations={len(seen)} "
              f"known={len(self.known_hits)} wall={wall:.1f}s")
        return rc


BASE_TRUSTED = [
    "Coq 8.16.1 kernel and coqc; vm_compute reduction (no native_compute)",
    "harness: generators, drivers, canonicalisers in /verif/harness (correspondence is sampling)",
    "CPython 3.12 / hashlib.sha256 as the meaning of the implementation",
]
