"""C09, nesting dimension: the loaded path is kept INSIDE a kept function (nesting depth 1-3 below the evaluated function), and
the pipeline goes through a history that comes back to a state the store has already seen.

The pipeline: top keeps "/n1" (f1), f1 keeps "/n2" (f2), f2 keeps "/n3" (f3) - every level through dds.keep or as a data
function; optionally the deepest function is kept under two paths (alias), a sibling branch "/s" -> "/sin" stays untouched by
the edits, and top itself loads the deepest path after having produced it.  top is evaluated through dds.eval, through a
top-level dds.keep("/top", top) or as a data function called at top level.
The history: versions of the package (a tracked variable read by level k / a literal argument passed to level k changes),
installed one after the other - edit then REVERT, edit-revert-edit, two edits then back to the first version - and / or another
top-level producer that keeps another function at the deepest path before the unchanged pipeline is evaluated again.
After every evaluation, in the same process and again from a fresh process, EVERY kept path (not only the one of the top
call) is loaded outside any evaluation, a reader of the nested paths (load at the root of an evaluated function, in a helper,
in a kept function, in a data function) is evaluated, and a second, later reader (a kept function) is evaluated from the
fresh process.  Expected (from the property, never from the implementation):
  * every evaluation, load and reader returns what the dds-free execution of the same files returns (dds.keep = call and
    remember, dds.load = the value remembered last in program order);
  * an evaluation repeated without any change runs no kept function again; a kept reader is served from the store while the
    paths it loads serve the same content and runs again when they serve content this history has not seen before;
  * the Coq model (L4_Eval.RunEval.run_history) agrees on outcome, execution log, committed signatures and stored keys."""
import concurrent.futures as cf
import copy
import json
import random

import common as C
import hist
import progs as P
import values as V

i_ = V.i_
ENTRIES = ["eval", "keep", "data-function"]             # how top is evaluated
NESTS = ["keep", "data-function"]                       # how a level keeps the next one
SHAPES = ["chain", "alias", "sibling"]
EDITS = ["var", "arg"]                                  # what changes between versions, at level 0 (top) .. depth
READERS = ["kept", "data-function", "eval-root", "eval-helper"]
STORES = ["local", "local+lru"]
# a history: versions to install and evaluate, "X" = another top-level producer keeps another function at the deepest path
# (the pipeline, unchanged, is evaluated again by the next entry)
HISTORIES = {"edit-revert": [0, 1, 0], "edit-revert-edit": [0, 1, 0, 1], "two-edits-back-to-first": [0, 1, 2, 0],
             "overwritten-by-another-producer": [0, "X", 0], "edit-overwritten-revert": [0, 1, "X", 0], "edit-revert-overwritten-same": [0, 1, 0, "X", 0]}


def scen(depth, entry, nests, shape, edit, level, history, reader, inner_load=False, twice=False, model=True):
    nests, level = list(nests)[:depth], min(level, depth)
    if shape == "alias":
        nests[depth - 1] = "keep"                   # the function kept under two paths is a plain function
    if edit == "arg":                               # a data function takes no argument: the level that receives the edited argument is kept with dds.keep
        if level > 0:
            nests[level - 1] = "keep"
        elif entry == "data-function":
            edit = "var"
    return {"depth": depth, "entry": entry, "nests": nests, "shape": shape, "edit": edit, "level": level, "history": history,
            "reader": reader, "inner_load": inner_load, "twice": twice, "model": model}


def name(sc):
    return (f"nested/depth={sc['depth']}/top-by={sc['entry']}/levels-by={'+'.join(sc['nests'])}/{sc['shape']}/{sc['history']}/edit={sc['edit']}@level{sc['level']}/"
            f"reader={sc['reader']}" + ("/top-loads-deepest" if sc["inner_load"] else "") + ("/evaluated-twice" if sc["twice"] else "") +
            (f"/store={sc['store']}" if sc.get("store", "local") != "local" else ""))


def all_paths(sc):
    ps = (["/top"] if sc["entry"] != "eval" else []) + [f"/n{k}" for k in range(1, sc["depth"] + 1)]
    if sc["shape"] == "alias":
        ps.append("/alias")
    if sc["shape"] == "sibling":
        ps += ["/s", "/sin"]
    return ps


def read_paths(sc):
    """what the readers load: the deepest path, the first nested one, the alias"""
    ps = [f"/n{sc['depth']}"] + (["/n1"] if sc["depth"] > 1 else []) + (["/alias"] if sc["shape"] == "alias" else [])
    return ps


def keep_stmt(kind, path, callee, arg):
    """level kept with dds.keep (it receives a literal argument) / as a data function (no argument)"""
    if kind == "keep":
        return {"k": "keep", "path": path, "callee": ("m0", callee), "pos": [["lit", arg]], "kw": [], "layout": "single"}
    return {"k": "call", "callee": ("m0", callee), "args": []}


def build(sc, version):
    """The package of the given version: only the variable read by / the argument passed to level sc['level'] differs."""
    D = sc["depth"]
    var = lambda k: i_(1 + (version if sc["edit"] == "var" and sc["level"] == k else 0))
    arg = lambda k: i_(10 + (version if sc["edit"] == "arg" and sc["level"] == k else 0))
    prm = [{"name": "a", "default": None}]
    funcs, mvars = [], {}
    for k in range(D, 0, -1):
        stmts = []
        if k < D:
            stmts.append(keep_stmt(sc["nests"][k], f"/n{k + 1}", f"f{k + 1}", arg(k + 1)))
            if k + 1 == D and sc["shape"] == "alias":
                # one function under two paths: the alias is always a dds.keep
                stmts.append(keep_stmt("keep", "/alias", f"f{D}", arg(D)))
        funcs.append({"name": f"f{k}", "params": prm if sc["nests"][k - 1] == "keep" else [], "annot": f"/n{k}" if sc["nests"][k - 1] == "data-function" else None, "salt": f"f{k}", "stmts": stmts,
                      "reads": [f"VAR_{k}"]})
        mvars[f"VAR_{k}"] = var(k)
    top = []
    if sc["shape"] == "sibling":
        funcs.append({"name": "gin", "params": [], "annot": None, "salt": "gi", "stmts": [], "reads": ["VAR_S"]})
        funcs.append({"name": "g", "params": [], "annot": None, "salt": "g", "reads": [],
                      "stmts": [{"k": "keep", "path": "/sin", "callee": ("m0", "gin"), "pos": [], "kw": [], "layout": "single"}]})
        mvars["VAR_S"] = i_(7)
        top.append({"k": "keep", "path": "/s", "callee": ("m0", "g"), "pos": [], "kw": [], "layout": "single"})
    top.append(keep_stmt(sc["nests"][0], "/n1", "f1", arg(1)))
    if D == 1 and sc["shape"] == "alias":
        top.append(keep_stmt("keep", "/alias", "f1", arg(1)))
    if sc["inner_load"]:
        top.append({"k": "load", "path": f"/n{D}"})
    mvars["VAR_0"] = var(0)
    funcs.append({"name": "top", "params": prm if sc["entry"] != "data-function" else [], "annot": "/top" if sc["entry"] == "data-function" else None, "salt": "t", "stmts": top, "reads": ["VAR_0"]})
    # the other producer of the deepest path, the readers
    funcs.append({"name": "other", "params": [], "annot": None, "salt": "o", "stmts": [], "reads": ["VAR_X"]})
    mvars["VAR_X"] = i_(50)
    loads = [{"k": "load", "path": p} for p in read_paths(sc)]
    funcs.append({"name": "reader", "params": [], "annot": "/reader" if sc["reader"] == "data-function" else None, "salt": "r", "stmts": copy.deepcopy(loads), "reads": []})
    funcs.append({"name": "rroot", "params": [], "annot": None, "salt": "rr", "stmts": [{"k": "call", "callee": ("m0", "reader"), "args": []}], "reads": []})
    funcs.append({"name": "late", "params": [], "annot": None, "salt": "l", "stmts": copy.deepcopy(loads), "reads": []})
    funcs.append({"name": "lroot", "params": [], "annot": None, "salt": "lr", "reads": [],
                  "stmts": [{"k": "keep", "path": "/late", "callee": ("m0", "late"), "pos": [], "kw": [], "layout": "single"}]})
    return {"pkg": "vpn", "ext_helpers": {}, "root": ("m0", "top"), "modules": {"m0": {"vars": mvars, "funcs": funcs}}}


def top_call(sc, version):
    a = i_(10 + (version if sc["edit"] == "arg" and sc["level"] == 0 else 0))
    act = {"a": "call", "mod": "m0", "fn": "top", "style": {"eval": "eval", "keep": "keep", "data-function": "direct"}[sc["entry"]],
           "pos": [a] if sc["entry"] != "data-function" else [], "kw": [], "role": "top"}
    if sc["entry"] == "keep":
        act["path"] = "/top"
    return act


def reader_call(sc):
    if sc["reader"] == "kept":
        return {"a": "call", "mod": "m0", "fn": "reader", "style": "keep", "path": "/reader", "pos": [], "kw": [], "role": "reader"}
    if sc["reader"] == "data-function":
        return {"a": "call", "mod": "m0", "fn": "reader", "style": "direct", "pos": [], "kw": [], "role": "reader"}
    return {"a": "call", "mod": "m0", "fn": "reader" if sc["reader"] == "eval-root" else "rroot", "style": "eval", "pos": [], "kw": [], "role": "reader"}


def events(sc):
    """The history as events of hist.run_history; every action carries its role, the step of the history and the process."""
    ev, cur = [], 0

    def act(a, step, proc, **k):
        ev.append(("act", dict(a, step=step, proc=proc, **k)))
    for step, h in enumerate(HISTORIES[sc["history"]]):
        if h == "X":
            ev.append(("prog", build(sc, cur)))
            act({"a": "call", "mod": "m0", "fn": "other", "style": "keep", "path": f"/n{sc['depth']}", "pos": [], "kw": [], "role": "other-producer"}, step, "same")
            act({"a": "load", "path": f"/n{sc['depth']}", "role": "load"}, step, "same")
            act({"a": "call", "mod": "m0", "fn": "lroot", "style": "eval", "pos": [], "kw": [], "role": "late-reader"}, step, "same")
            continue
        cur = h
        ev.append(("prog", build(sc, cur)))
        act(top_call(sc, cur), step, "same")
        if sc["twice"]:
            act(top_call(sc, cur), step, "same", repeated=True)
        for p in all_paths(sc):
            act({"a": "load", "path": p, "role": "load"}, step, "same")
        act(reader_call(sc), step, "same")
        if sc["twice"]:
            act(reader_call(sc), step, "same", repeated=True)
        ev.append(("restart",))
        for p in all_paths(sc):
            act({"a": "load", "path": p, "role": "load"}, step, "fresh")
        act({"a": "call", "mod": "m0", "fn": "lroot", "style": "eval", "pos": [], "kw": [], "role": "late-reader"}, step, "fresh")
    return ev


def describe(sc, act):
    hs = HISTORIES[sc["history"]]
    did = "another producer kept at the deepest path" if hs[act["step"]] == "X" else f"version {hs[act['step']]} installed"
    return f"step {act['step']} of {hs} ({did}), {'same' if act['proc'] == 'same' else 'fresh'} process"


KEPT_FUNCS = ("f1", "f2", "f3", "g", "gin")


def check(sc, recs):
    """The violations of one scenario: list of (key, what, index of the action)."""
    v, nm = [], name(sc)
    dims = f"top-by-{sc['entry']}"
    seen, last = {}, {}
    for i, r in enumerate(recs):
        act, out, want, log = r["act"], r["impl"]["out"], r["ref"]["out"], r["impl"]["log"]
        where = describe(sc, act)
        role = act["role"]
        for d in hist.compare(r)[:1]:
            v.append((f"nested:model-mismatch:{d[0]}:{dims}", f"{nm}: {where}: action {i} ({role}): implementation and model disagree: {json.dumps(d)[:260]}", i))
        if role == "load":
            if out != want:
                kind = ("path-of-the-top-call" if act["path"] == "/top" else "nested-path") + ("-stale-or-wrong" if out.startswith("ok:") else "-not-loadable")
                v.append((f"nested:load-outside:{kind}:{act['proc']}-process:{dims}", f"{nm}: {where}: dds.load({act['path']!r}) outside any evaluation gives {out[:80]} "
                          f"but the value most recently kept there by plain execution is {want[:80]}", i))
            continue
        if out != want:
            kind = "exception" if not out.startswith("ok:") else "stale-or-wrong-value"
            what = {"top": "evaluation of the pipeline", "other-producer": "the other producer", "reader": f"reader of {read_paths(sc)} ({sc['reader']})",
                    "late-reader": f"later reader of {read_paths(sc)} (kept function)"}[role]
            v.append((f"nested:{role}-{kind}:{dims}", f"{nm}: {where}: {what} returned {out[:100]} but plain execution gives {want[:100]}" +
                      (f" [{r['impl'].get('tb', '').strip().splitlines()[-1][:140]}]" if r["impl"].get("tb") else ""), i))
            continue
        if role == "top" and act.get("repeated"):
            ran = [t for t in log if t in KEPT_FUNCS or (t == "top" and sc["entry"] != "eval")]
            if ran:
                v.append((f"nested:recomputed-unchanged:{dims}", f"{nm}: {where}: the evaluation repeated without any change ran {ran} again", i))
        if role in ("reader", "late-reader") and (role == "late-reader" or sc["reader"] in ("kept", "data-function")):
            fn = "reader" if role == "reader" else "late"
            if want not in seen.setdefault(fn, set()) and fn not in log:
                v.append((f"nested:reader-not-reevaluated:{dims}", f"{nm}: {where}: the paths loaded by the kept {fn} serve content not seen before but it did not run", i))
            if last.get(fn) == want and fn in log:
                v.append((f"nested:reader-recomputed-unchanged:{dims}", f"{nm}: {where}: the kept {fn} ran again although the paths it loads serve the same content", i))
            seen[fn].add(want)
            last[fn] = want
    return v


def scenarios(tier, seed):
    rng = random.Random(seed * 6271 + 90)
    rot = random.Random(909)                        # the rotation of the other dimensions in the deterministic slice does not depend on the seed
    S = []
    hs = list(HISTORIES)

    def others(r, depth, history):
        # an edit of level 0 leaves every nested path as it is: mostly the levels below are edited
        level = r.randint(1, depth) if "edit" in history and r.random() < 0.8 else r.randint(0, depth)
        return dict(nests=[r.choice(NESTS) for _ in range(3)], shape=r.choice(SHAPES + ["chain"]), edit=r.choice(EDITS), level=level, reader=r.choice(READERS),
                    inner_load=r.random() < 0.35, twice=r.random() < 0.3)
    # every way of evaluating top x every depth x every history (one third of it in the quick tier, which third depends on the seed)
    for e, entry in enumerate(ENTRIES):
        for depth in (1, 2, 3):
            for h, history in enumerate(hs):
                o = others(rot, depth, history)
                if tier == "quick" and (e + depth + h + seed) % 3 != 0:
                    continue
                # the Coq model is run for every scenario of the thorough tier, for one in three of the quick tier
                S.append(scen(depth, entry, history=history, model=tier != "quick" or len(S) % 3 == 0, **o))
    for n in range(4 if tier == "quick" else 100):
        depth = rng.choice((1, 2, 2, 3, 3))
        history = rng.choice(hs)
        S.append(scen(depth, rng.choice(ENTRIES), history=history, model=n % 3 == 0, **others(rng, depth, history)))
    if tier != "quick":
        # the store: the local store alone / behind the LRU cache (3 entries: smaller than the number of blobs of most pipelines)
        srng = random.Random(seed * 31 + 7)
        for sc in S:
            sc["store"] = srng.choice(STORES + ["local"])
    return S


def run_one(sc):
    try:
        return hist.run_history(events(sc), store_kind=sc.get("store", "local"), run_model=sc.get("model", True))
    except Exception as e:  # noqa
        return {"error": str(e)[-1000:]}


def run(rep, tier, seed, proof_ok):
    S = scenarios(tier, seed)
    with cf.ThreadPoolExecutor(max_workers=C.NPROC) as ex:
        results = list(ex.map(run_one, S))
    dist = {"scenarios": len(S), "by_depth": {}, "by_way_of_evaluating_top": {}, "by_history": {}, "by_shape": {}, "by_edit": {}, "by_edited_level": {},
            "by_reader": {}, "by_store": {}, "compared_with_the_coq_model": 0, "top_loads_deepest": 0, "evaluated_twice": 0, "actions": 0, "loads_outside_from_fresh_process": 0, "outcomes_of_top_calls": {}}
    for sc, recs in zip(S, results):
        nm = name(sc)
        if isinstance(recs, dict):
            rep.case(nm, nontrivial=False)
            rep.violation("harness-error:c09-nested", f"{nm}: nested scenario could not be run: " + recs["error"][-300:], {"nscen": sc}, no_input=True)
            continue
        rep.case(nm)
        for k, f in (("by_depth", "depth"), ("by_way_of_evaluating_top", "entry"), ("by_history", "history"), ("by_shape", "shape"), ("by_edit", "edit"),
                     ("by_edited_level", "level"), ("by_reader", "reader")):
            dist[k][str(sc[f])] = dist[k].get(str(sc[f]), 0) + 1
        dist["by_store"][sc.get("store", "local")] = dist["by_store"].get(sc.get("store", "local"), 0) + 1
        dist["top_loads_deepest"] += sc["inner_load"]
        dist["compared_with_the_coq_model"] += sc["model"]
        dist["evaluated_twice"] += sc["twice"]
        dist["actions"] += len(recs)
        for r in recs:
            dist["loads_outside_from_fresh_process"] += r["act"]["role"] == "load" and r["act"]["proc"] == "fresh"
            if r["act"]["role"] == "top":
                o = r["impl"]["out"] if not r["impl"]["out"].startswith("ok:") else "ok"
                dist["outcomes_of_top_calls"][o] = dist["outcomes_of_top_calls"].get(o, 0) + 1
        for key, what, i in check(sc, recs):
            rep.violation(key, what, {"nscen": sc, "name": nm, "action": i, "act": recs[i]["act"], "observed": recs[i]["impl"]["out"], "reference": recs[i]["ref"]["out"],
                                      "executed": recs[i]["impl"]["log"], "history": HISTORIES[sc["history"]], "source_of_version_0": P.render_module(build(sc, 0), "m0"),
                                      "actions": [f"{r['act']['step']}/{r['act']['proc']}: {r['act']['role']} {r['act'].get('path', '')}" for r in recs]})
    if S:
        rep.sample({"nested": name(S[0]), "actions": [e[0] if e[0] != "act" else e[1]["role"] + ":" + e[1].get("path", e[1].get("fn", "")) for e in events(S[0])]})
    return dist


def replay(r):
    sc = r["nscen"]
    recs = run_one(sc)
    if isinstance(recs, dict):
        print(recs["error"])
        return 2
    for i, rec in enumerate(recs):
        a = rec["act"]
        print(i, f"step{a['step']}/{a['proc']}", a["role"], a.get("path", a.get("fn", "")), "impl:", rec["impl"]["out"][:100], "| reference:", rec["ref"]["out"][:100], "| log:", rec["impl"]["log"])
    v = check(sc, recs)
    for key, what, where in v:
        print(json.dumps({"key": key, "what": what, "action": where}))
    print("REPRODUCED" if v else "not reproduced")
    return 1 if v else 0
