"""C16 - every usable local-store configuration works; data dirs are independent views."""
import concurrent.futures as cf
import itertools
import json
import os
import random
import shutil
import tempfile

import common as C
import c16_fs
import c16_nested

COQ_FILES = ("L5_Stores/Config.v", "L5_Stores/ConfigProofs.v", "Properties/C16.v")
EXTRACTED = ("ConstConfig",)
ALLOWED_AXIOMS = ()

CFGMOD = '''SALT = "s0"
COUNT = [0]
import holder_c16

def f():
    holder_c16.bump()
    return "value-" + SALT
'''
HOLDER = '''import cfgmod
def bump():
    cfgmod.COUNT[0] += 1
'''

DIR_SHAPES = {
    "absolute": lambda base, name: os.path.join(base, name),
    "relative": lambda base, name: name,
    "relative-dot": lambda base, name: "./" + name,
    "trailing-slash": lambda base, name: os.path.join(base, name) + "/",
    "relative-trailing-slash": lambda base, name: name + "/",
    "nested-non-existing": lambda base, name: os.path.join(base, "n1", "n2", name),
    "relative-nested": lambda base, name: os.path.join("r1", "r2", name),
    "symlinked-parent": lambda base, name: os.path.join(base, "lnk", name),
    "pre-existing": lambda base, name: os.path.join(base, "pre_" + name),
    # a symbolic link among the ancestors whose target lies at another depth of the tree (a lexical ../.. from the
    # configured name and from the physical directory do not lead to the same place)
    "symlinked-ancestor-deeper-target": lambda base, name: os.path.join(base, "lnk_deep", "sub", name),
    "symlinked-ancestor-relative": lambda base, name: os.path.join("lnk_deep", name),
    "directory-is-a-symlink": lambda base, name: os.path.join(base, "sl_" + name),
}
CACHE = ["none", "false", "true", 0, -1, 2]


def write_mod(base):
    # COUNT lives in cfgmod but is bumped from a non-accepted module so that it is not a tracked dependency
    open(os.path.join(base, "cfgmod.py"), "w").write(CFGMOD.replace("COUNT = [0]", "COUNT = [0]"))
    open(os.path.join(base, "holder_c16.py"), "w").write(HOLDER)


def run_case(case):
    base = tempfile.mkdtemp(prefix="c16_", dir=C.scratch_dir())
    try:
        write_mod(base)
        os.makedirs(os.path.join(base, "real_parent"))
        os.makedirs(os.path.join(base, "elsewhere", "deep"))
        os.makedirs(os.path.join(base, "pre_int"))
        os.makedirs(os.path.join(base, "pre_dat"))
        os.symlink(os.path.join(base, "real_parent"), os.path.join(base, "lnk"))
        os.makedirs(os.path.join(base, "vol", "disk1", "proj", "sub"))
        os.symlink(os.path.join(base, "vol", "disk1", "proj"), os.path.join(base, "lnk_deep"))
        for nm in ("int", "dat"):
            os.makedirs(os.path.join(base, "targets", "x", "y", nm))
            os.symlink(os.path.join(base, "targets", "x", "y", nm), os.path.join(base, "sl_" + nm))
        cfg = {"internal_dir": DIR_SHAPES[case["ishape"]](base, "int"), "data_dir": DIR_SHAPES[case["dshape"]](base, "dat"),
               "cache_objects": case["cache"]}
        steps1 = [{"set_store": cfg}, {"keep": ["/a/b", "s0"]}, {"load": "/a/b"}, {"chdir": "elsewhere/deep"}, {"load": "/a/b"},
                  {"keep": ["/a/b", "s0"]}, {"keep": ["/c", "s1"]}, {"load": "/c"}, {"keep": ["/a/b", "s1"]}, {"load": "/a/b"}]
        r1 = C.run_driver("drive_config.py", {"base": base, "steps": steps1})
        # a second process with the same configuration (same starting directory)
        steps2 = [{"set_store": cfg}, {"load": "/a/b"}, {"load": "/c"}, {"keep": ["/c", "s1"]}]
        r2 = C.run_driver("drive_config.py", {"base": base, "steps": steps2})
        return {"case": case, "r1": r1, "r2": r2, "cfg": cfg}
    except Exception as e:  # noqa
        return {"case": case, "error": str(e)[-500:]}
    finally:
        shutil.rmtree(base, ignore_errors=True)


def run_views(case):
    """two data directories on one internal directory, used alternately"""
    base = tempfile.mkdtemp(prefix="c16v_", dir=C.scratch_dir())
    try:
        write_mod(base)
        i = os.path.join(base, "int")
        c1 = {"internal_dir": i, "data_dir": os.path.join(base, "view1"), "cache_objects": case["cache"]}
        c2 = {"internal_dir": i, "data_dir": os.path.join(base, "view2"), "cache_objects": case["cache"]}
        steps = [{"set_store": c1}, {"keep": ["/p", "s0"]}, {"set_store": c2}, {"load": "/p"}, {"keep": ["/p", "s0"]}, {"load": "/p"},
                 {"keep": ["/q", "s1"]}, {"set_store": c1}, {"load": "/q"}, {"load": "/p"}, {"keep": ["/p", "s1"]}, {"set_store": c2}, {"load": "/p"}]
        r = C.run_driver("drive_config.py", {"base": base, "steps": steps})
        return {"case": case, "r": r}
    except Exception as e:  # noqa
        return {"case": case, "error": str(e)[-500:]}
    finally:
        shutil.rmtree(base, ignore_errors=True)


def run_same_strings(case):
    """The same (relative) configuration strings given to set_store from two working directories in one process: a relative
    directory is resolved where the store is created, so these are two stores (independent views, shared blobs iff the
    internal directory is absolute); a second process started in the second directory must see the second view."""
    base = tempfile.mkdtemp(prefix="c16s_", dir=C.scratch_dir())
    try:
        write_mod(base)
        for d in ("proj_a", "proj_b"):
            os.makedirs(os.path.join(base, d))
        cfg = {"internal_dir": os.path.join(base, "int") if case["internal"] == "absolute" else "int", "data_dir": "data", "cache_objects": case["cache"]}
        steps = [{"chdir": "proj_a"}, {"set_store": cfg}, {"keep": ["/p", "s0"]}, {"load": "/p"},
                 {"chdir": "proj_b"}, {"set_store": cfg}, {"keep": ["/p", "s1"]}, {"load": "/p"},
                 {"chdir": "proj_a"}, {"set_store": cfg}, {"load": "/p"}, {"keep": ["/p", "s0"]}]
        r1 = C.run_driver("drive_config.py", {"base": base, "steps": steps})
        r2 = C.run_driver("drive_config.py", {"base": base, "steps": [{"chdir": "proj_b"}, {"set_store": cfg}, {"load": "/p"}]})
        files = {d: os.path.lexists(os.path.join(base, d, "data", "p")) for d in ("proj_a", "proj_b")}
        return {"case": case, "r1": r1, "r2": r2, "files": files}
    except Exception as e:  # noqa
        return {"case": case, "error": str(e)[-500:]}
    finally:
        shutil.rmtree(base, ignore_errors=True)


def run_redeclared(case):
    """One process declares a store, uses it (keep + load, so that the object cache holds the result), then the SAME configuration strings
    come to designate another internal directory - the name is a symbolic link that is re-pointed, or the directory is removed and created
    again by the next declaration - and the store is declared again (same or another data directory): the second declaration is a usable
    configuration of its own; what is kept under it must be readable by a second process with the same configuration."""
    base = tempfile.mkdtemp(prefix="c16r_", dir=C.scratch_dir())
    try:
        write_mod(base)
        for d in ("real_a", "real_b"):
            os.makedirs(os.path.join(base, d))
        os.symlink(os.path.join(base, "real_a"), os.path.join(base, "int"))
        # re-pointed: the name is a symbolic link; removed: a plain directory that the first declaration creates
        iname = "int" if case["change"] == "repoint" else "int_plain"
        cfg_a = {"internal_dir": os.path.join(base, iname), "data_dir": os.path.join(base, "view_a"), "cache_objects": case["cache"]}
        cfg_b = dict(cfg_a, data_dir=os.path.join(base, "view_b" if case["view"] == "other" else "view_a"))
        change = {"repoint": ["real_b", "int"]} if case["change"] == "repoint" else {"rmtree": "int_plain"}
        steps = [{"set_store": cfg_a}, {"keep": ["/p", "s0"]}, {"load": "/p"}, change, {"set_store": cfg_b}, {"keep": ["/p", "s0"]}, {"load": "/p"}]
        r1 = C.run_driver("drive_config.py", {"base": base, "steps": steps})
        r2 = C.run_driver("drive_config.py", {"base": base, "steps": [{"set_store": cfg_b}, {"load": "/p"}, {"keep": ["/p", "s0"]}]})
        return {"case": case, "r1": r1, "r2": r2}
    except Exception as e:  # noqa
        return {"case": case, "error": str(e)[-500:]}
    finally:
        shutil.rmtree(base, ignore_errors=True)


def run(rep, tier, seed, proof_ok):
    rng = random.Random(seed)
    rep.rule = ("local-store configurations: internal_dir x data_dir shapes {absolute, relative, ./relative, trailing slash, nested "
                "non-existing, relative nested, parent reached through a symbolic link, pre-existing} x cache_objects {None, False, "
                "True, 0, -1, 2}; in one process: set_store, keep, load, chdir, load, re-keep (must not recompute), keep another path, "
                "keep changed code; in a second process with the same configuration: load both paths, re-keep (must not recompute); "
                "plus two data directories on one internal directory used alternately (blobs shared: no recomputation; paths "
                "independent); plus the same relative configuration strings given to set_store from two working directories in one process; quick: all shape pairs with a rotating cache option; thorough: full product; non-trivial = a shape "
                "other than absolute/absolute; plus NESTED KEEPS (harness/c16_nested.py): generated pipelines whose kept functions keep "
                "intermediate results themselves {chain of depth 2, chain of depth 3, fan-out with a depth-3 branch, two branches sharing a leaf "
                "path}, every function with its own code version (a tracked module variable), entered by dds.keep or by dds.eval of a wrapper, in "
                "histories over two data views A / B of one internal directory and 2-3 processes with different working directories, view B / the "
                "second process spelling both directories in another way {trailing slash, relative, ./relative, relative + slash, x/../x, parent "
                "reached through a symbolic link}, B's data directory nested and not existing, cache_objects rotating; history kinds: B evaluates "
                "what A evaluated (all served from the shared blobs) | B evaluates another version of the top function only (children served) | "
                "one view goes version 0, 1, 0 again from another process | the same kept function under a new path in the view and in the other "
                "view | the two views alternately in one process with two versions | B keeps an inner function directly, then calls the top "
                "function outside of an evaluation; after every evaluation every kept path (nested ones too) is loaded in that view, the other "
                "view is re-loaded, a last fresh process elsewhere loads every path of both views, and the physical data directories are "
                "inspected (a link to a blob of the internal directory for every kept path, nothing for the others); expected values, expected "
                "executions of the bodies (a body runs iff reached and no blob of that version in the shared internal directory) and expected "
                "failures (a path the view never kept) come from a model of the generated program; quick: 18 histories (each kind 3 times, "
                "rotating pipeline / spelling / cache / entry from the seed), thorough: kinds x pipelines x entries x 3 drawn spellings; plus the FILE "
                "SYSTEMS the directories live on (harness/c16_fs.py; the second file system is found by st_dev among /dev/shm, /run/user/*, /var/tmp, "
                "/tmp and probed with a rename that must fail with EXDEV; none found = dimension skipped, controls only, see input_distribution): "
                "placements {view B on the other file system | internal directory + view B there, view A alone here | everything there, working "
                "directories here | both views there | the configured name of view B here with a symbolic link among its ancestors crossing | "
                "idem for the internal directory | pre-existing internal directory whose blobs/ is a link to the other file system | pre-existing "
                "data directories in which the directory of a path segment is on the other file system | usable pre-existing directories in "
                "read-only parents (skipped as root)} x directory shapes {absolute, trailing slash, relative, nested non-existing, relative "
                "nested} x cache_objects; history over the two views of one internal directory: A keeps /p, keeps the same function under /d/e/q "
                "(no recomputation), B does not serve /p, keeps /p (served from the shared blobs), keeps a new version under /d/e/q, chdir, "
                "loads, keeps the new version under /p (served), A still serves its own values; a second process started elsewhere loads B's "
                "paths, re-keeps (served), keeps an old version under a new path (served), A does not serve that path and catches up without "
                "recomputation; last the physical data directories are inspected (every kept path a link to a blob of the internal directory); "
                "plus nested-keep histories (above) with view B / view A / all views / the internal directory on the other file system; quick: "
                "1 control + every placement twice with rotating shapes / cache options + 3 nested-keep histories, thorough: placements x {one, "
                "two file systems} x shapes x cache_objects + 12 nested-keep histories")
    shapes = list(DIR_SHAPES)
    cases = []
    for k, (a, b) in enumerate(itertools.product(shapes, shapes)):
        if tier == "quick" and proof_ok:
            cases.append({"ishape": a, "dshape": b, "cache": CACHE[k % len(CACHE)]})
        else:
            for c in CACHE:
                cases.append({"ishape": a, "dshape": b, "cache": c})
    with cf.ThreadPoolExecutor(max_workers=C.NPROC) as ex:
        nested = c16_nested.start(tier, proof_ok, rng, ex, CACHE)
        fsys = c16_fs.start(tier, proof_ok, rng, ex, CACHE)
        res = list(ex.map(run_case, cases))
        vres = list(ex.map(run_views, [{"cache": c} for c in CACHE]))
        sres = list(ex.map(run_same_strings, [{"cache": c, "internal": i} for c in CACHE[:3] for i in ("absolute", "relative")]))
        rres = list(ex.map(run_redeclared, [{"cache": c, "view": v, "change": ch} for c in CACHE for v in ("other", "same") for ch in ("repoint", "rmtree")]))
        nested = c16_nested.collect(rep, nested)
        nested.update(c16_fs.collect(rep, fsys))
    for r in rres:
        c = r["case"]
        rep.case("redeclared:" + json.dumps(c))
        if "error" in r:
            rep.violation("harness-error:c16", r["error"][-300:], r, no_input=True)
            continue
        r1, r2 = r["r1"], r["r2"]
        bad = []
        if r1[1] != "V:value-s0:ran=1" or r1[2] != "L:value-s0":
            bad.append(("first declaration", r1[1], r1[2]))
        if not r1[5].startswith("V:value-s0") or r1[6] != "L:value-s0":
            bad.append(("second declaration", r1[5], r1[6]))
        if r2[1] != "L:value-s0":
            bad.append(("second process: load", r2[1], "L:value-s0"))
        if r2[2] != "V:value-s0:ran=0":
            bad.append(("second process: keep", r2[2], "V:value-s0:ran=0"))
        if bad:
            how = "a symbolic link that is re-pointed to an empty directory" if c["change"] == "repoint" else "removed and created again by the next declaration"
            rep.violation("config-redeclared-internal-directory-replaced", f"one process declares the store twice (cache_objects={c['cache']}, "
                          f"{'another' if c['view'] == 'other' else 'the same'} data directory) and the internal directory is {how} in between: {bad[:3]}",
                          {"case": c, "r1": r1, "r2": r2})
    for r in sres:
        c = r["case"]
        rep.case("same-strings:" + json.dumps(c))
        if "error" in r:
            rep.violation("harness-error:c16", r["error"][-300:], r, no_input=True)
            continue
        r1, r2 = r["r1"], r["r2"]
        want1 = {3: "L:value-s0", 7: "L:value-s1", 10: "L:value-s0"}
        bad = [(i, r1[i], w) for i, w in want1.items() if r1[i] != w]
        if not r1[2].startswith("V:value-s0") or not r1[6].startswith("V:value-s1"):
            bad.append(("keep", r1[2], r1[6]))
        if r1[11] != "V:value-s0:ran=0":
            bad.append((11, r1[11], "V:value-s0:ran=0"))
        if r2[2] != "L:value-s1":
            bad.append(("second-process", r2[2], "L:value-s1"))
        if not (r["files"]["proj_a"] and r["files"]["proj_b"]):
            bad.append(("files", r["files"], "a link under each data directory"))
        if bad:
            rep.violation("config-same-strings-two-working-directories", f"the same relative configuration (internal={c['internal']}, cache_objects={c['cache']}) "
                          f"used from two working directories in one process: {bad[:3]}", {"case": c, "r1": r1, "r2": r2, "files": r["files"]})
    if False:
        pass
    for r in res:
        c = r["case"]
        rep.case(json.dumps(c), nontrivial=(c["ishape"], c["dshape"]) != ("absolute", "absolute"))
        if "error" in r:
            rep.violation("harness-error:c16", r["error"][-300:], r, no_input=True)
            continue
        r1, r2 = r["r1"], r["r2"]
        exp1 = [None, "V:value-s0:ran=1", "L:value-s0", "U", "L:value-s0", "V:value-s0:ran=0", "V:value-s1:ran=1", "L:value-s1", "V:value-s1:ran=0", "L:value-s1"]
        # after SALT changes to s1, f's signature changes (SALT is a tracked variable): keep /c with s1 runs f once; /a/b with s1 is then a hit
        exp2 = [None, "L:value-s1", "L:value-s1", "V:value-s1:ran=0"]
        for i, (got, want) in enumerate(zip(r1, exp1)):
            if want is not None and got != want:
                kind = "relative-internal-dir" if c["ishape"].startswith("relative") else ("relative-data-dir" if c["dshape"].startswith("relative") else "other")
                rep.violation(f"config-fails:{kind}:{got.split(':')[0]}{':' + got.split(':')[1] if got[0] in 'XE' else ''}",
                              f"configuration internal={c['ishape']} data={c['dshape']} cache_objects={c['cache']}: step {i} gave {got[:100]}, expected {want}",
                              {"case": c, "cfg": r["cfg"], "process1": r1, "expected": exp1})
                break
        else:
            for i, (got, want) in enumerate(zip(r2, exp2)):
                if want is not None and got != want:
                    rep.violation(f"config-fails-second-process:{got.split(':')[0]}", f"configuration internal={c['ishape']} data={c['dshape']}: second process step {i} "
                                  f"gave {got[:100]}, expected {want}", {"case": c, "cfg": r["cfg"], "process2": r2, "expected": exp2})
                    break
    for r in vres:
        rep.case(json.dumps(["views", r["case"]]))
        if "error" in r:
            rep.violation("harness-error:c16", r["error"][-300:], r, no_input=True)
            continue
        want = [None, "V:value-s0:ran=1", None, "E:NONE", "V:value-s0:ran=0", "L:value-s0", "V:value-s1:ran=1", None, "E:NONE", "L:value-s0",
                "V:value-s1:ran=0", None, "L:value-s0"]
        for i, (got, w) in enumerate(zip(r["r"], want)):
            if w is not None and got != w and not (w == "E:NONE" and got.startswith("E:")):
                rep.violation("views-not-independent", f"two data views, cache_objects={r['case']['cache']}: step {i} gave {got[:80]}, expected {w}",
                              {"case": r["case"], "got": r["r"], "expected": want})
                break
    rep.extra["input_distribution"] = dict({"configurations": len(cases), "view_scenarios": len(vres), "same_strings_scenarios": len(sres)}, **nested)
    rep.sample(cases[1]); rep.sample(cases[-1])


def replay(path):
    r = json.load(open(path))["replay"]
    if "fs_case" in r:
        return c16_fs.replay(r)
    if "nested_case" in r:
        return c16_nested.replay(r)
    c = r.get("case", {})
    out = run_case(c) if "ishape" in c else run_redeclared(c) if "change" in c else run_same_strings(c) if "internal" in c else run_views(c)
    print(json.dumps(out, indent=1)[:3000])
    return 1
