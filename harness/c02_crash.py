"""C02, the dimension 'what happened to the store before': histories in which an evaluation is INTERRUPTED, and the
UNCHANGED pipeline is then evaluated again and again, in the same process (when it survived) and by fresh processes.

An interruption is one of
  kill        the process is killed (os._exit) before its i-th file-system operation / in the middle of its i-th write;
  os-error    the i-th file-system operation raises OSError (the store raises: disk full, I/O error), the process survives;
  user-raise  the k-th function body that runs raises (a transient failure of user code), the process survives.
What the property demands of every such history (nothing depends on how the store lays out its files):
  (1) the first evaluation that completes after the interruption (the 'recovery') returns the value of plain execution and
      may execute a kept body only if the uncrashed evaluation from the same starting state executes it too (what was
      served before the interruption is still served) and its result was not yet acknowledged by the store when the
      interruption happened (work that was completely stored is not done again);
  (2) after the recovery has completed normally NOTHING has changed any more: every later evaluation - in the same process,
      by a fresh process, through the other entry style, data functions called directly - executes no kept body, returns
      the value of plain execution and commits the signatures of the uncrashed run; loads give the plain values.
The expected values come from plain execution without dds (drive_prog.py, nodds), the expected executions from the
uncrashed traced evaluation of the same history prefix on the same kind of store.  Processes are forked children of
harness/drive_c02crash.py (= drive_c06srv.py + acknowledged-put recording + the two in-process faults)."""
import hashlib
import json
import os
import random
import shutil
import subprocess
import tempfile
import threading

import common as C
import progs as P
import values as V
import c06
import c06_ident as I

i_ = V.i_
MUTATING = I.MUTATING

_servers, _idle, _sems, _lock = [], {}, {}, threading.Lock()
PER_PROG = 2


class Server(I.Server):
    """One harness/drive_c02crash.py process for one program."""

    def __init__(self, prog):
        self.root = tempfile.mkdtemp(prefix="c02s_", dir=C.scratch_dir())
        P.write_package(prog, self.root)
        self.p = subprocess.Popen([C.PY, os.path.join(C.HARNESS, "drive_c02crash.py")], stdin=subprocess.PIPE, stdout=subprocess.PIPE,
                                  stderr=subprocess.DEVNULL, text=True, env=C.impl_env(), cwd=C.scratch_dir())
        self.p.stdin.write(json.dumps({"root": self.root, "pkg": prog["pkg"], "mods": sorted(prog["modules"])}) + "\n")
        self.p.stdin.flush()
        line = self.p.stdout.readline()
        if not line.startswith("@@READY@@"):
            raise RuntimeError("process server did not start: " + line[:300])

    def run(self, base, actions, gate=None, fault=None):
        store = {"kind": "local", "internal_dir": os.path.join(base, "internal"), "data_dir": os.path.join(base, "data")}
        self.p.stdin.write(json.dumps({"store": store, "actions": actions, "gate": gate, "fault": fault, "pid": None}) + "\n")
        self.p.stdin.flush()
        while True:
            line = self.p.stdout.readline()
            if not line:
                raise RuntimeError("process server died")
            if line.startswith("@@REPLY@@"):
                r = json.loads(line[len("@@REPLY@@"):])
                return r["rc"], r["res"], r["out"]


def prog_id(prog):
    return hashlib.sha1(json.dumps(prog, sort_keys=True, default=str).encode()).hexdigest()[:16]


def run_process(prog, base, actions, gate=None, fault=None):
    """One process lifetime on the store under base, with the code of prog (at most PER_PROG servers per program are started:
    starting one costs an interpreter with dds imported, a process lifetime only a fork)."""
    k = prog_id(prog)
    with _lock:
        sem = _sems.setdefault(k, threading.Semaphore(PER_PROG))
    with sem:
        with _lock:
            srv = _idle[k].pop() if _idle.get(k) else None
        if srv is None:
            srv = Server(prog)
            with _lock:
                _servers.append(srv)
        r = srv.run(base, actions, gate, fault)      # a server that fails is not used again
        with _lock:
            _idle.setdefault(k, []).append(srv)
    return r


def close_servers():
    with _lock:
        for s in _servers:
            s.close()
        del _servers[:]
        _idle.clear()


# ---------------------------------------------------------------------------------------------------------------------------
# the pipelines


def chain_pipeline(version):
    """numbers (data function) <- total (data function that calls it) <- root: calls both and keeps scaled(total's value, 10)."""
    funcs = [{"name": "numbers", "params": [], "annot": "/numbers", "salt": f"n{version}", "stmts": [], "reads": []},
             {"name": "total", "params": [], "annot": "/sub/total", "salt": "t0", "reads": [],
              "stmts": [{"k": "call", "callee": ("m0", "numbers"), "args": []}]},
             {"name": "scaled", "params": [{"name": "t", "default": None}, {"name": "k", "default": None}], "annot": None, "salt": "s0",
              "stmts": [], "reads": []},
             {"name": "root", "params": [], "annot": None, "salt": "r0", "reads": [],
              "stmts": [{"k": "call", "callee": ("m0", "numbers"), "args": []}, {"k": "call", "callee": ("m0", "total"), "args": []},
                        {"k": "keep", "path": "/scaled", "callee": ("m0", "scaled"), "pos": [["local", 1], ["lit", i_(10)]], "kw": [], "layout": "single"}]}]
    return {"pkg": "vpc2", "ext_helpers": {}, "root": ("m0", "root"), "modules": {"m0": {"vars": {}, "funcs": funcs}}}


def shape(name, prog, call, setup=None):
    kept = {n for (_, n) in P.kept_only_functions(prog)}
    if call.get("style") in ("keep", "direct"):
        kept.add(call["fn"])
    paths, direct = [], []
    for (m, n) in P.reachable(prog, *prog["root"]):
        f = P.find_func(prog, m, n)
        if f.get("annot"):
            paths.append(f["annot"])
            if not f["params"]:
                direct.append({"a": "call", "mod": m, "fn": n, "style": "direct", "pos": [], "kw": []})
        paths += [st["path"] for st in f["stmts"] if st["k"] == "keep" and isinstance(st.get("path"), str)]
    if call.get("style") == "keep":
        paths.append(call["path"])
    other = None
    if call["style"] == "eval" and P.find_func(prog, call["mod"], call["fn"]).get("annot"):
        other = dict(call, style="direct")
    probes = direct + [{"a": "load", "path": p} for p in sorted(set(paths))] + ([other] if other else [])
    return {"name": name, "prog": prog, "call": call, "setup": setup, "kept": sorted(kept), "probes": probes}


def fixed_shapes(full=True):
    ev = dict(c06.CALL, style="eval")
    ev.pop("path")
    cev = {"a": "call", "mod": "m0", "fn": "root", "style": "eval", "pos": [], "kw": []}
    return [shape("kept-root+nested-keep+data-function:cold-store", c06.pipeline(0), c06.CALL),
            shape("kept-root+nested-keep+data-function:after-edit", c06.pipeline(1), c06.CALL, setup=c06.pipeline(0)),
            shape("data-function-chain+keep-of-a-local:cold-store", chain_pipeline(0), cev),
            shape("data-function-chain+keep-of-a-local:after-edit", chain_pipeline(1), cev, setup=chain_pipeline(0))] + \
        ([shape("eval-root+nested-keep+data-function:cold-store", c06.pipeline(0), ev),
          shape("eval-root+nested-keep+data-function:after-edit", c06.pipeline(1), ev, setup=c06.pipeline(0))] if full else [])


def random_shapes(seed, n):
    """Generated pipelines, on a cold store and after an inside-cone edit (the interrupted evaluation is the one of the edit)."""
    out = []
    for i in range(n):
        rng = random.Random(seed * 7919 + i)
        prog = P.gen_program(rng)
        call = P.root_call(prog, rng)
        if not P.kept_only_functions(prog):
            continue
        out.append(shape(f"generated-{seed * 7919 + i}:cold-store", prog, call))
        edits = [e for e in P.edit_catalogue(prog, rng) if e[0] in ("body", "var", "literal")]
        if edits:
            kind, info, p2 = edits[rng.randrange(len(edits))]
            out.append(shape(f"generated-{seed * 7919 + i}:after-{kind}-edit", p2, dict(call, mod=p2["root"][0]), setup=prog))
    return out


# ---------------------------------------------------------------------------------------------------------------------------
# running one history


def plain_reference(sh):
    """Outcomes of [call] + probes without dds (keep = call, load = the value most recently kept)."""
    base = tempfile.mkdtemp(prefix="c02p_", dir=C.scratch_dir())
    try:
        P.write_package(sh["prog"], os.path.join(base, "src"))
        res = C.run_driver("drive_prog.py", {"root": os.path.join(base, "src"), "pkg": sh["prog"]["pkg"], "store": {"kind": "memory"}, "nodds": True,
                                             "kept_file": os.path.join(base, "kept.pickle"), "actions": [sh["call"]] + sh["probes"]})
        return [r["out"] for r in res]
    finally:
        shutil.rmtree(base, ignore_errors=True)


def sigs_of(res):
    sync = [r for r in res["rec"] if r[0] == "sync"]
    return sync[-1][1] if sync else None


def start_state(sh, base):
    if sh["setup"] is not None:
        setup_call = dict(sh["call"], mod=sh["setup"]["root"][0])
        rc, res, txt = run_process(sh["setup"], base, [setup_call])
        if res is None or not res[0]["out"].startswith("ok:"):
            raise RuntimeError("setup evaluation failed: " + (txt or json.dumps(res))[-300:])


def uncrashed(sh):
    """The uncrashed traced evaluation from the starting state: operations, executed bodies, acknowledged puts, signatures."""
    base = tempfile.mkdtemp(prefix="c02u_", dir=C.scratch_dir())
    try:
        start_state(sh, base)
        rc, res, txt = run_process(sh["prog"], base, [sh["call"]], gate={"mode": "trace"})
        if res is None:
            raise RuntimeError("uncrashed evaluation failed: " + txt[-300:])
        ops = I.eval_ops(res[-1]["gate_log"])
        return {"out": res[0]["out"], "log": res[0]["log"], "sigs": sigs_of(res[0]), "ops": ops,
                "puts": [r[2:] for r in res[0]["rec"] if r[0] == "put-done"]}
    finally:
        shutil.rmtree(base, ignore_errors=True)


def acknowledged_before(un, fault):
    """Tags of kept functions all of whose results were acknowledged by the store before the interruption."""
    if fault["kind"] == "user-raise":
        done = [(tag, nb < fault["k"]) for (tag, nops, nb) in un["puts"]]
    else:
        at = fault["at"]
        done = [(tag, nops < at) for (tag, nops, nb) in un["puts"]]
    return {t for (t, d) in done if d} - {t for (t, d) in done if not d}


def run_history(sh, fault, un, plain):
    """fault: {"kind": "kill", "at": i, "half": bool} | {"kind": "os-error", "at": i} | {"kind": "user-raise", "k": k, "exc": name}.
    Returns {"interrupted": bool, "problems": [[kind, where, detail]], "evaluations": n}."""
    base = tempfile.mkdtemp(prefix="c02h_", dir=C.scratch_dir())
    out = {"interrupted": False, "problems": [], "evaluations": 0, "operation": None}
    prog, call, kept = sh["prog"], sh["call"], set(sh["kept"])
    allowed = (set(un["log"]) & kept) - acknowledged_before(un, fault)

    def judge(res, where, recovery, expected):
        """One completed action after the interruption."""
        out["evaluations"] += 1
        ran = [t for t in res["log"] if t in kept]
        if res["out"] != expected:
            out["problems"].append(["wrong-outcome-after-interruption", where, f"returned {res['out'][:100]}, plain execution gives {expected[:100]} "
                                    + ([""] + [l for l in res.get("tb", "").splitlines() if l.strip()])[-1].replace(base, "<store>")[:200]])
            return False
        if recovery:
            outside = [t for t in ran if t not in un["log"]]
            again = [t for t in ran if t in un["log"] and t not in allowed]
            if outside:
                out["problems"].append(["served-before-the-interruption-but-executed-after-it", where,
                                        f"executed {outside}: the uncrashed evaluation from the same starting state executes only {sorted(set(un['log']) & kept)}"])
            if again:
                out["problems"].append(["stored-before-the-interruption-but-executed-again", where,
                                        f"executed {again}: their results had been acknowledged by the store before the interruption"])
        else:
            if ran:
                out["problems"].append(["unchanged-after-a-completed-recovery", where, f"executed {ran} although nothing changed since the "
                                        "evaluation before it, which completed normally"])
            elif res["a"] == "call" and res["style"] != "direct" and sigs_of(res) is not None and sigs_of(res) != un["sigs"]:
                out["problems"].append(["signatures-differ-after-interruption", where, f"committed {sigs_of(res)}, the uncrashed evaluation commits {un['sigs']}"])
        return True

    def tagged(res, acts):
        for r, a in zip(res, acts):
            r["a"], r["style"] = a["a"], a.get("style")
        return res
    try:
        start_state(sh, base)
        recovered = False
        if fault["kind"] == "kill":
            logf = os.path.join(base, "gate.json")
            rc, res, txt = run_process(prog, base, [call], gate={"mode": "crash", "crash_at": fault["at"], "half": bool(fault.get("half")), "logfile": logf})
            if rc != 77:
                return out
            out["interrupted"] = True
            try:
                out["operation"] = json.load(open(logf))[-1]
            except (OSError, ValueError, IndexError):
                pass
            os.path.exists(logf) and os.remove(logf)
        else:
            acts = [call, call, call]
            rc, res, txt = run_process(prog, base, acts, fault=fault)
            if res is None:
                # the store could not even be set up (the fault hit its construction): the process ends like a killed one
                if fault["kind"] != "os-error":
                    out["problems"].append(["process-died", "interrupted process", txt[-300:].replace(base, "<store>")])
                    return out
                out["interrupted"] = True
                out["operation"] = ([e for e in un["ops"] if e[0] == fault["at"]] or [None])[0]
            else:
                tagged(res, acts)
                glog = res[-1].get("gate_log") if fault["kind"] == "os-error" else None
                if glog is not None:
                    hit = [e for e in glog if e[0] == fault["at"]]
                    out["operation"] = hit[0] if hit else None
                    out["interrupted"] = bool(hit)
                else:
                    out["interrupted"] = res[0]["out"].startswith("exc:")
                if not out["interrupted"]:
                    return out
                if res[0]["out"].startswith("ok:"):
                    # the fault was absorbed (a failing existence test reads as 'absent'): the evaluation completed normally.  The
                    # operating system failed DURING it: which bodies it ran is not judged, the value it returned is
                    out["evaluations"] += 1
                    if res[0]["out"] != plain[0]:
                        rc2, res2, txt2 = run_process(prog, base, [call])
                        later = ("evaluates to the same wrong value, executing " + str([t for t in res2[0]["log"] if t in kept]) + ": the wrong value is in the store"
                                 if res2 and res2[0]["out"] == res[0]["out"] else "evaluates to " + (res2[0]["out"][:60] if res2 else "nothing (it died)"))
                        out["problems"].append(["failed-operation-taken-for-absent:wrong-value-returned", "the interrupted evaluation itself",
                                                f"returned {res[0]['out'][:100]} without any error, plain execution gives {plain[0][:100]}; a fresh process then {later}"])
                        return out
                    recovered = True
                for j in (1, 2):
                    if not judge(res[j], f"evaluation #{j + 1} of the interrupted process", not recovered, plain[0]):
                        return out
                    recovered = True
        # fresh processes
        acts = [call, call]
        rc, res, txt = run_process(prog, base, acts)
        if res is None:
            out["problems"].append(["process-died", "first fresh process", txt[-300:].replace(base, "<store>")])
            return out
        tagged(res, acts)
        for j in range(2):
            if not judge(res[j], f"evaluation #{j + 1} of the first fresh process", not recovered, plain[0]):
                return out
            recovered = True
        acts = [call] + sh["probes"]
        rc, res, txt = run_process(prog, base, acts)
        if res is None:
            out["problems"].append(["process-died", "second fresh process", txt[-300:].replace(base, "<store>")])
            return out
        tagged(res, acts)
        for j, (r, a) in enumerate(zip(res, acts)):
            what = "evaluation" if j == 0 else (f"dds.load({a['path']})" if a["a"] == "load" else f"{a['fn']} called {a['style']}ly")
            judge(r, f"{what} in the second fresh process", False, plain[j])
        return out
    finally:
        shutil.rmtree(base, ignore_errors=True)


def safe(fn, arg):
    try:
        return fn(arg)
    except Exception as e:  # noqa
        return {"harness_error": type(e).__name__ + ": " + str(e)[:300]}


def safe_history(args):
    sh, fault, un, plain = args
    try:
        return run_history(sh, fault, un, plain)
    except Exception as e:  # noqa: reported by the caller as a harness error, never silently dropped
        return {"harness_error": type(e).__name__ + ": " + str(e)[:300], "problems": [], "interrupted": False, "evaluations": 0, "operation": None}


# ---------------------------------------------------------------------------------------------------------------------------
# the interruption points of one shape


def is_mutating(e):
    """(close: what Python buffered reaches the file)"""
    return (e[1] in MUTATING and not (e[1] == "open" and str(e[3]).startswith("r"))) or (e[1] == "close" and ".tmp." in str(e[2]))


def fault_points(un, reads=False, excs=("Exception",)):
    """All interruption points of the evaluation whose uncrashed run is un."""
    ops = un["ops"]
    faults = []
    # kill: the states a killed process can leave differ only after a mutating operation (before any: the starting state)
    for prev, e in zip([None] + ops, ops):
        if prev is not None and is_mutating(prev):
            faults.append({"kind": "kill", "at": e[0], "half": False})
        if e[1] == "write":
            faults.append({"kind": "kill", "at": e[0], "half": True})
    # os-error: the operations through which the store writes (their failure reaches the caller as an exception: the store
    # raises); reads: also the reading operations, among them the existence tests, whose failure Python reports as 'absent'
    faults += [{"kind": "os-error", "at": e[0]} for e in ops if reads or is_mutating(e)]
    # user-raise: every body that the evaluation runs
    faults += [{"kind": "user-raise", "k": k, "exc": exc} for k in range(1, len(un["log"]) + 1) for exc in excs]
    return faults


def fault_class(un, fault):
    if fault["kind"] == "user-raise":
        return ("user-raise", fault["exc"], "first" if fault["k"] == 1 else ("last" if fault["k"] == len(un["log"]) else "inner"))
    e = next(e for e in un["ops"] if e[0] == fault["at"])
    return (fault["kind"], bool(fault.get("half")), e[1], I.obj_kind(e))


def sample_by_class(un, faults, rng, per_class=1):
    """A seeded sample with every class of interruption (kind x operation x object of the store) represented."""
    strata = {}
    for f in faults:
        strata.setdefault(fault_class(un, f), []).append(f)
    out = []
    for k in sorted(strata, key=str):
        rng.shuffle(strata[k])
        out += strata[k][:per_class]
    return out


def describe(sh, fault, r):
    op = r.get("operation")
    if fault["kind"] == "kill":
        how = f"the evaluating process is killed {'in the middle of' if fault.get('half') and op and op[1] == 'write' else 'before'} its file-system operation {fault['at']} {op[1:4] if op else ''}"
    elif fault["kind"] == "os-error":
        how = f"file-system operation {fault['at']} {op[1:4] if op else ''} of the evaluation raises OSError"
    else:
        how = f"the {fault['k']}-th function body of the evaluation raises {fault['exc']}"
    pre = "after an evaluation of the previous code version, " if sh["setup"] is not None else "on a new store, "
    return f"pipeline {sh['name']} ({sh['call']['style']} entry): {pre}{how}"


def op_class(fault, r):
    op = r.get("operation")
    if fault["kind"] == "user-raise":
        return "user-raise:" + fault["exc"]
    if not op:
        return fault["kind"]
    return f"{fault['kind']}:{op[1]}{'-torn' if fault.get('half') and op[1] == 'write' else ''}:{I.obj_kind(op)}"


def key_class(fault, r):
    """The class of an interruption in a violation key: kind and the object of the store it hit."""
    op = r.get("operation")
    if fault["kind"] == "user-raise" or not op:
        return op_class(fault, r)
    return f"{fault['kind']}:{I.obj_kind(op)}"


def untuple(prog):
    """A program read back from JSON."""
    if prog is None:
        return None
    prog["root"] = tuple(prog["root"])
    for m in prog["modules"].values():
        for f in m["funcs"]:
            for st in f["stmts"]:
                if "callee" in st:
                    st["callee"] = tuple(st["callee"])
    return prog


def replay(r):
    sh, fault = r["interrupted_history"]["shape"], r["interrupted_history"]["fault"]
    sh["prog"], sh["setup"] = untuple(sh["prog"]), untuple(sh["setup"])
    try:
        plain = plain_reference(sh)
        un = uncrashed(sh)
        res = run_history(sh, fault, un, plain)
    finally:
        close_servers()
    print(describe(sh, fault, res) + ("" if res["interrupted"] else " (interruption point not reached)"))
    print("uncrashed evaluation from the same starting state: executes", un["log"], "acknowledged puts (function, operations done, bodies run):", un["puts"])
    for kind, where, detail in res["problems"]:
        print(f"  {where}: {kind} -> {detail}")
    print("REPRODUCED" if res["problems"] else "not reproduced")
    return 1 if res["problems"] else 0
