"""C04, same-process dimension: what the process did with dds BEFORE the evaluation whose commit is checked.

One long-lived process issues a sequence of steps; a step = one preceding call (`prior`) + one evaluation in one of the
three call styles (dds.eval(f) / top-level dds.keep(p, f) / a data function called directly).  The priors are every
other use of dds a process can make on the same code and store: dry runs (dds.eval under every proper prefix of the stage
order), full evaluations with a graph export / with the debugging level set, evaluations that fail (a user function
raising an Exception or a BaseException, arguments that do not fit, a path nested under another kept path, a graph export
that cannot be written, an ill-formed stage list), dds.load of a kept / never kept path, or nothing; they address the
entry point of the evaluation that follows or a node below it.  The code of the process is the first version, an edit of
a version kept by an earlier process, or an edit that arrives in the running process (modules reloaded).

What is demanded comes from the properties only.  C15: a run restricted to a proper prefix of the stages commits no
path, and later full evaluations behave as if it had not happened; C10: an evaluation that raises commits no path, the
next evaluation behaves as if it had not happened.  Hence (C04) after every evaluation that returns, every path it kept
is served - by dds.load from a FRESH process working on the same store, by dds.load in the process itself, and by the
file under the data directory - with the value the dds-free execution of the same files keeps there when the dry runs
and the failing calls are left out; the paths it did not keep serve what they served before; and every evaluation
returns what the plain execution returns (a dry run without the eval stage: None)."""
import copy
import os
import random
import shutil
import tempfile

import c04_config as K
import common as C
import hist
import progs as P
import values as V

STYLES = ("eval", "keep", "direct")
EXC_KINDS = ["Exception", "ValueError", "KeyboardInterrupt", "SystemExit", "BaseException"]
# kind of the preceding call -> class (the violation keys name the class, the descriptions the kind)
PRIORS = {"none": "nothing", "stages:1": "dry-run", "stages:2": "dry-run", "stages:3": "no-commit-run", "stages:4": "no-commit-run",
          "export": "configured-run", "debug": "configured-run", "user-raises": "failure", "bad-args": "failure", "overlap": "failure",
          "export-fails": "failure", "bad-stages": "failure", "load": "load", "load-missing": "load"}
CORE = ("none", "stages:1", "stages:2", "stages:4", "user-raises", "overlap", "export", "load")     # quick tier: these x every style, the others x one style
NEVER = "/never/kept"


def data_functions(prog):
    return [(m, n) for (m, n) in P.reachable(prog, *prog["root"]) if P.find_func(prog, m, n).get("annot")]


def call_of(prog, m, n, style, rng):
    f = P.find_func(prog, m, n)
    act = {"a": "call", "mod": m, "fn": n, "style": style, "kw": [],
           "pos": [] if f.get("annot") else [rng.choice(P.LIT_VALUES) for p in f["params"] if p.get("default") is None]}
    if style == "keep":
        act["path"] = "/root_out"
    return act


def evaluation(prog, style, rng):
    """The evaluation of a step in the given style: dds.eval / dds.keep of the entry point; `direct` = a data function
    called on its own (the entry point if it is one, else one below it: that evaluation keeps part of the paths only)."""
    if style == "direct":
        dfs = data_functions(prog)
        m, n = prog["root"] if tuple(prog["root"]) in dfs and rng.random() < 0.6 else rng.choice(dfs)
        return call_of(prog, m, n, "direct", rng)
    return call_of(prog, *prog["root"], style, rng)


def gen_for(rng, styles):
    """A pipeline on which these call styles exist: a top-level keep needs a plain entry point, a direct call a data function."""
    while True:
        prog = P.gen_program(rng)
        root = P.find_func(prog, *prog["root"])
        if ("keep" in styles and root.get("annot")) or ("direct" in styles and not data_functions(prog)):
            continue
        if K.kept_paths(prog, {"mod": prog["root"][0], "fn": prog["root"][1]}):
            return prog


def edited(prog, rng):
    """An edit that changes values (a variable read / a literal passed), else the text of a body."""
    cat = P.edit_catalogue(prog, rng)
    eds = [e for e in cat if e[0] in ("var", "literal")] or [e for e in cat if e[0] == "body"]
    return copy.deepcopy(rng.choice(eds)[2])


def prior_actions(prog, kind, ev, paths, rng):
    """The actions of one preceding call of this kind, in the process that runs `prog`, before the evaluation `ev`."""
    tag = {"role": "prior", "kind": kind}
    reach = P.reachable(prog, ev["mod"], ev["fn"])
    # dds.eval of the entry point of the evaluation that follows, or of a plain node below it
    subs = [(m, n) for (m, n) in reach[1:] if not P.find_func(prog, m, n).get("is_class")]
    tm, tn = rng.choice(subs) if subs and rng.random() < 0.35 else (ev["mod"], ev["fn"])
    as_eval = dict(call_of(prog, tm, tn, "eval", rng), **tag)
    if (tm, tn) == (ev["mod"], ev["fn"]):
        as_eval.update(pos=ev["pos"], kw=ev["kw"])
    if kind == "none":
        return []
    if kind.startswith("stages:"):
        return [dict(as_eval, n_stages=int(kind[7:]))]
    if kind == "export":
        return [dict(as_eval, export=True)]
    if kind == "debug":
        return [dict(as_eval, extra_debug=rng.choice([True, False]))]
    if kind == "export-fails":
        return [dict(as_eval, export="/dev/null/graph.plain", expect="error")]
    if kind == "bad-stages":
        return [dict(as_eval, stages=rng.choice([["eval"], ["analysis", "eval"], ["analysis", "path_commit"], ["analysis", "no_such_stage"]]), expect="error")]
    if kind == "user-raises":
        # the code on disk is broken, reloaded, evaluated (fails), repaired, reloaded again
        bad = copy.deepcopy(prog)
        exc = rng.choice(EXC_KINDS)
        vm, vn = rng.choice(reach)
        P.find_func(bad, vm, vn)["raises"] = exc
        return [{"a": "reprog", "prog": bad, "role": "prior", "kind": kind},
                dict({k: v for k, v in ev.items() if k != "role"}, role="prior", kind=kind, expect="raises", detail=f"{vn} raises {exc}"),
                {"a": "reprog", "prog": copy.deepcopy(prog), "role": "prior", "kind": kind}]
    if kind == "bad-args":
        return [dict({k: v for k, v in ev.items() if k != "role"}, pos=ev["pos"] + [V.i_(1)] * 5, role="prior", kind=kind, expect="fails")]
    if kind == "overlap":
        # dds.keep(p + "/sub", f) where the evaluation of f keeps p itself: documented as an error
        f = P.find_func(prog, ev["mod"], ev["fn"])
        inner = [p for p in K.kept_paths(prog, {"mod": ev["mod"], "fn": ev["fn"]}) if p != f.get("annot")]
        if f.get("annot") or not inner:
            return prior_actions(prog, "bad-args", ev, paths, rng)
        return [dict(call_of(prog, ev["mod"], ev["fn"], "keep", rng), pos=ev["pos"], kw=ev["kw"], path=rng.choice(inner) + "/sub", expect="error", **tag)]
    if kind == "load":
        return [{"a": "load", "path": rng.choice(paths), "role": "prior", "kind": kind}]
    if kind == "load-missing":
        return [{"a": "load", "path": NEVER, "role": "prior", "kind": kind}]
    raise ValueError(kind)


def plan_prior(seed, cells, store_kind, base, arrival, probe_after_prior=False):
    """cells: [(kind of the preceding call, style of the evaluation)] = the steps of the process under test.
    base: 'fresh-store' | 'older-version' (an earlier process kept the paths with the previous version of the code);
    arrival (older-version only): the edited code comes with a 'new-process' or is 'reloaded' into the one that evaluated."""
    rng = random.Random(f"c04-prior-{seed}")
    v2 = gen_for(rng, {s for _, s in cells})
    root_eval = call_of(v2, *v2["root"], "eval", rng)
    paths = sorted(set(K.kept_paths(v2, root_eval) + ["/root_out"]))
    probe_prog = {"pkg": v2["pkg"], "modules": {}, "ext_helpers": {}, "root": v2["root"]}

    def probes():
        # ANOTHER process, started now on the same store while this one stays alive
        acts = []
        for p in paths:
            acts += [{"a": "load", "path": p}, {"a": "rawfile", "path": p}]
        return [("act", {"a": "subprocess", "prog": copy.deepcopy(probe_prog), "actions": acts, "role": "probe"})]
    ev = []
    if base == "older-version":
        v1 = edited(v2, rng)        # (the relation 'single edit' is symmetric)
        st0 = rng.choice([s for s in ("eval", "keep", "direct") if not (s == "keep" and P.find_func(v1, *v1["root"]).get("annot"))
                          and not (s == "direct" and not P.find_func(v1, *v1["root"]).get("annot"))])
        ev += [("prog", v1), ("act", dict(call_of(v1, *v1["root"], st0, rng), role="base"))]
        ev += [("act", {"a": "reprog", "prog": copy.deepcopy(v2), "role": "arrival"})] if arrival == "reloaded" else [("prog", copy.deepcopy(v2))]
    else:
        ev += [("prog", copy.deepcopy(v2))]
    steps = []
    for kind, style in cells:
        e = dict(evaluation(v2, style, rng), role="checked")
        pr = prior_actions(v2, kind, e, paths, rng)
        steps.append([pr[0]["kind"] if pr else "none", style])      # (a nested path needs a plain entry point that keeps one: else too many arguments)
        ev += [("act", a) for a in pr]
        if pr and probe_after_prior:
            ev += probes()
        ev += [("act", e)]
        ev += [("act", {"a": "load", "path": p, "role": "probe"}) for p in K.kept_paths(v2, e)[:2]]
        ev += probes()
    cur = None
    for e_ in ev:       # every call carries the paths its plain execution keeps (straight-line code)
        if e_[0] == "prog" or e_[1]["a"] == "reprog":
            cur = e_[1] if e_[0] == "prog" else e_[1]["prog"]
        elif e_[1]["a"] == "call":
            e_[1]["keeps"] = K.kept_paths(cur, e_[1])
    return {"seed": f"prior:{seed}", "store": store_kind, "events": ev, "paths": paths, "call": root_eval, "prior": True, "cells": steps,
            "base": base, "arrival": arrival if base == "older-version" else None}


def draw_plans(seed, tier, quick):
    """quick: every core kind x every style and every other kind x one style, two steps per process;
    beyond: every kind x every style, several times, two or three steps, a fresh-process probe also after the preceding call."""
    rng = random.Random(f"c04-prior-plans-{seed}")
    plans, j = [], 0
    for rnd in range(1 if quick else 3):
        cells = [(k, s) for k in PRIORS for i, s in enumerate(STYLES) if not quick or k in CORE or i == (sorted(PRIORS).index(k) + seed) % 3]
        rng.shuffle(cells)
        n_steps = 2 if quick or rnd % 2 == 0 else 3
        while cells:
            step, cells = cells[:n_steps], cells[n_steps:]
            base = ["older-version", "fresh-store", "older-version"][j % 3]
            plans.append(plan_prior(seed * 1000 + j, step, ["local", "local+lru"][(j // 2) % 2], base, ["new-process", "reloaded"][(j // 3) % 2],
                                    probe_after_prior=not quick))
            j += 1
    return plans


# ----------------------------------------------------------------------------- running


def is_plain_noncommitting(a):
    """Calls that the plain execution performs but whose keeps do not count: their outcome is taken from a run of the
    dds-free reference on a throw-away record of the kept values."""
    return a["a"] == "call" and (a.get("n_stages") in (3, 4) or a.get("expect") in ("raises", "fails"))


def commits(a):
    """Calls that are full evaluations expected to return: their keeps are what the paths must serve."""
    return a["a"] == "call" and a.get("n_stages") is None and a.get("expect") is None and a.get("stages") is None


def in_main(a):
    return commits(a) or a["a"] in ("load", "rawfile", "subprocess")


def reference(events):
    """The dds-free run (drive_prog.py, nodds) of the same files.  Returns one outcome per flat action (None where the
    plain execution has nothing to say: reloads, dry runs without the eval stage, calls expected to be refused by dds)."""
    root = tempfile.mkdtemp(prefix="priorref_", dir=C.scratch_dir())
    pkgroot, kept_file, scrap = os.path.join(root, "src"), os.path.join(root, "kept.pickle"), os.path.join(root, "scrap.pickle")
    segs, cur_prog = [], None
    for e in events:
        if e[0] in ("prog", "restart"):
            cur_prog = copy.deepcopy(e[1]) if e[0] == "prog" else cur_prog
            segs.append((cur_prog, []))
        elif e[1]["a"] == "reprog":
            cur_prog = copy.deepcopy(e[1]["prog"])
            segs[-1][1].append(e[1])
            segs.append((cur_prog, []))
        else:
            segs[-1][1].append(e[1])
    out = []
    try:
        for prog, acts in segs:
            if not acts:
                continue
            shutil.rmtree(pkgroot, ignore_errors=True)
            os.makedirs(pkgroot)
            P.write_package(prog, pkgroot)
            base = {"root": pkgroot, "pkg": prog["pkg"], "store": {"kind": "memory"}, "nodds": True}
            side = [a for a in acts if is_plain_noncommitting(a)]
            main = [a for a in acts if in_main(a)]
            if os.path.exists(scrap):
                os.unlink(scrap)
            if side and os.path.exists(kept_file):
                shutil.copy(kept_file, scrap)
            side_out = iter(C.run_driver("drive_prog.py", dict(base, actions=[hist.impl_action(a) for a in side], kept_file=scrap)) if side else [])
            main_out = iter(C.run_driver("drive_prog.py", dict(base, actions=main, kept_file=kept_file)) if main else [])
            for a in acts:
                o = next(side_out) if is_plain_noncommitting(a) else next(main_out) if in_main(a) else {"out": None}
                out += o["sub"] if "sub" in o else [o]
    finally:
        shutil.rmtree(root, ignore_errors=True)
    return out


def run_prior_history(events, store_kind):
    recs = hist.run_history(events, store_kind=store_kind, run_ref=False, run_model=False)
    ref = reference(events)
    if len(ref) != len(recs):
        raise RuntimeError(f"reference run misaligned: {len(ref)} outcomes for {len(recs)} actions")
    for r, o in zip(recs, ref):
        r["ref"] = o
    return recs


# ----------------------------------------------------------------------------- judging


def tell(a):
    """One preceding call / evaluation in words."""
    if a["a"] == "reprog":
        return "code edited and reloaded" if a.get("role") == "arrival" else "code reloaded"
    if a["a"] == "load":
        return f"dds.load({a['path']})"
    args = "..." if a.get("pos") or a.get("kw") else ""
    opts = ""
    if a.get("n_stages") is not None:
        opts = f", dds_stages={hist.STAGE_NAMES[:a['n_stages']]}"
    elif a.get("stages") is not None:
        opts = f", dds_stages={a['stages']}"
    if a.get("export"):
        opts += ", dds_export_graph=" + ("a file" if a["export"] is True else repr(a["export"]))
    if a.get("extra_debug") is not None:
        opts += f", dds_extra_debug={a['extra_debug']}"
    sep = ", " if args else ""
    txt = {"eval": f"dds.eval({a['fn']}{sep}{args}{opts})", "keep": f"dds.keep({a.get('path')}, {a['fn']}{sep}{args})", "direct": f"{a['fn']}({args})"}[a.get("style", "eval")]
    return txt + (f" [{a['detail']}]" if a.get("detail") else " [too many arguments]" if a.get("kind") == "bad-args" else "")


def judge(recs, store_kind):
    """Returns (problems, stats); problems = [(violation key, description, index of the action)].  A call that does not
    end as it must (it raised instead of returning, or returned instead of raising) is a problem; what its paths serve
    from then on is not judged until an evaluation that returns keeps them again - the rest of the history is."""
    problems, told = [], []
    stats = {"load": 0, "rawfile": 0, "same_process_load": 0, "evaluations": 0, "priors": 0, "not_judged": 0, "cases": []}
    last_prior, last_eval, tainted = "nothing", None, set()

    def where():
        return f"{store_kind} store [{'; '.join(told[-7:])}]"
    for i, r in enumerate(recs):
        a, io, ro = r["act"], r["impl"]["out"], r["ref"]["out"]
        k, role = a["a"], a.get("role")
        if r.get("other_process"):
            role = "probe"
        if k == "reprog":
            told.append(tell(a))
            if io != "ok:N":
                problems.append(("harness-error:c04-prior", f"reload failed: {io} {r['impl'].get('tb', '')[-300:]}", i))
                break
            continue
        if k == "call":
            told.append(("earlier process: " if role == "base" else "") + tell(a) + ("; new process with the edited code" if role == "base" and
                        i + 1 < len(recs) and recs[i + 1]["act"]["a"] != "reprog" else ""))
            if a.get("expect") in ("raises", "fails") and (ro or "").startswith("ok:"):
                problems.append(("harness-error:c04-prior", f"the plain execution of a call planned to fail returns: {tell(a)}", i))
                break
            if a.get("n_stages") in (1, 2):
                want, why = "ok:N", "a run without the eval stage returns None"
            elif a.get("expect") in ("error", "fails"):
                want, why = None, "dds documents this call as an error" if a["expect"] == "error" else f"the plain execution gives {ro[:60]}"
            else:
                want, why = ro, f"the plain execution gives {ro[:80]}"
            ok = (not io.startswith("ok:")) if want is None else io == want
            if role == "prior":
                stats["priors"] += 1
            else:
                stats["evaluations"] += 1
            if not ok:
                if role == "prior" and a["kind"] == "bad-args" and io.startswith("ok:"):
                    # arguments that a data function cannot take are accepted when its result is already in the store (the cached blob
                    # is returned): not a matter of this property - the paths serve the right values - so it is only counted
                    stats["bad_args_accepted_from_cache"] = stats.get("bad_args_accepted_from_cache", 0) + 1
                    tainted |= set(a["keeps"])
                    last_prior = PRIORS[a["kind"]]
                    continue
                elif role == "prior":
                    key = f"sameproc-prior-differs:{PRIORS[a['kind']]}:{store_kind}"
                else:
                    key = f"sameproc-eval-differs:{a.get('style', 'eval')}-after-{last_prior}:{store_kind}"
                problems.append((key, f"{where()}: the last call gives {io[:80]} but {why}", i))
                tainted |= set(a["keeps"])
            elif commits(a):
                tainted -= set(a["keeps"])
            if role == "prior":
                last_prior = PRIORS[a["kind"]]
            else:
                last_eval = a
            continue
        # probes: dds.load in the process itself / dds.load and the file under the data directory in a fresh process
        if role == "prior":
            told.append(tell(a))
            stats["priors"] += 1
        served = (ro or "").startswith("ok:")
        if a["path"] in tainted:
            stats["not_judged"] += 1
            continue
        if r.get("other_process"):
            stats[k] += 1
            via = "dds.load from a fresh process" if k == "load" else "the file under the data directory (read by a fresh process)"
        else:
            stats["same_process_load"] += 1
            via = "dds.load in the process itself"
        stats["cases"].append((i, served))
        sfx = f"{(last_eval or {}).get('style', 'none')}-after-{last_prior}:{store_kind}"
        if served and io != ro:
            problems.append((("sameproc-load-wrong:" if k == "load" else "sameproc-file-wrong:") + sfx, f"{where()}: {via} gives {io[:80]} for {a['path']}, but the latest "
                             f"evaluation that returned and kept it returned {ro[:80]}", i))
        elif not served and io.startswith("ok:"):
            problems.append(("sameproc-never-kept-served:" + sfx, f"{where()}: {via} gives {io[:80]} for {a['path']}, which no evaluation that returned has kept", i))
        if role == "prior":
            last_prior = PRIORS[a["kind"]]
    return problems, stats


def fix_prog(pr):
    pr["root"] = tuple(pr["root"])
    for m in pr["modules"].values():
        for f in m["funcs"]:
            for st in f["stmts"]:
                if "callee" in st:
                    st["callee"] = tuple(st["callee"])
    return pr


def fix_events(events):
    """Events read back from JSON (replay files): tuples restored."""
    out = []
    for e in events:
        if e[0] == "prog":
            fix_prog(e[1])
        elif e[0] == "act" and "prog" in e[1]:
            fix_prog(e[1]["prog"])
        out.append(tuple(e))
    return out


def replay(r):
    recs = run_prior_history(fix_events(r["events"]), r["store"])
    problems, _ = judge(recs, r["store"])
    for i, rec in enumerate(recs):
        a = rec["act"]
        print(i, ("  (fresh process) " if rec.get("other_process") else "") + (a.get("role") or ""), tell(a) if a["a"] != "rawfile" else f"file of {a['path']}",
              "| impl:", (rec["impl"]["out"] or "")[:90], "| reference:", (rec["ref"]["out"] or "-")[:90])
    for key, what, i in problems:
        print("PROBLEM", key, "at action", i, ":", what)
    print("REPRODUCED" if problems else "not reproduced")
    return 1 if problems else 0
