"""Implementation driver for C03, execution environments: ONE program (a package tree given as source text), evaluated in
one process under a list of environments that differ only by things that are not program content.

stdin: {"root": dir (created here), "files": {relpath: text}, "plain_files": {relpath: text}, "accept": [...],
        "module": "pkg.main", "plain_module": "pkg_plain.main",
        "entry": {"fn": name, "style": "eval" | "keep", "path": "/out", "args": [ints], "pre": None | name of a zero-argument function that is called
                  (with a roomy recursion limit, from a shallow stack) on the same store before each evaluation: it persists what the entry loads},
        "plain_entry": {"fn": name, "args": [...]}, "plain_pre": None | name,
        "pre_ops": [source op ...]   applied BEFORE the modules are imported (process-level environment),
        "envs": [{"name":..., "depth": extra caller frames, "reclimit": int | None, "thread": bool, "tracer": None | "settrace" | "setprofile",
                  "ops": [source op ...] applied after import, before this evaluation, and undone after it, "linecache": "warm" | "cleared"}]}
source op: {"op": "gone" | "pyc-only" | "dir-renamed", "file": relpath (of a .py file; for dir-renamed: of the package directory)}

-> {"plain": repr of the plain execution (same text, dds replaced by a pass-through stub) | "exc:...",
    "import_error": None | "exc:...",
    "envs": [{"name":..., "error": None | "dds:<code>:<text>" | "exc:<type>:<text>", "value": repr | None,
              "synced": [ {path: sig} per sync_paths call ], "stored": [keys handed to store_blob], "ctx_left": bool}]}
Every evaluation uses a fresh recording memory store, so each one analyses and executes everything."""
import importlib
import json
import linecache
import os
import py_compile
import shutil
import sys
import threading
import warnings

ROOMY = 20000


def at_depth(k, thunk):
    """calls thunk with k extra python frames below the caller"""
    if k <= 0:
        return thunk()
    return at_depth(k - 1, thunk)


def apply_ops(root, ops):
    """-> list of undo thunks"""
    undo = []
    side = os.path.join(root, "_elsewhere")
    os.makedirs(side, exist_ok=True)
    for n, op in enumerate(ops or []):
        src = os.path.join(root, op["file"])
        dst = os.path.join(side, f"{n}_" + os.path.basename(op["file"]))
        if op["op"] == "pyc-only":
            # what a compiled distribution ships: module.pyc next to where module.py was
            pyc = src + "c"
            py_compile.compile(src, cfile=pyc, doraise=True)
            shutil.move(src, dst)
            undo.append(lambda src=src, dst=dst, pyc=pyc: (os.remove(pyc), shutil.move(dst, src)))
        elif op["op"] in ("gone", "dir-renamed"):
            shutil.move(src, dst)
            undo.append(lambda src=src, dst=dst: shutil.move(dst, src))
        else:
            raise ValueError(op)
    return undo


def main():
    payload = json.load(sys.stdin)
    root = payload["root"]
    for files in (payload["files"], payload["plain_files"]):
        for rel, text in files.items():
            p = os.path.join(root, rel)
            os.makedirs(os.path.dirname(p), exist_ok=True)
            with open(p, "w") as f:
                f.write(text)
    sys.path.insert(0, root)
    warnings.simplefilter("ignore")
    import logging
    logging.disable(logging.CRITICAL)
    import dds
    import dds._api as _api
    from dds.store import MemoryStore
    from dds.structures import DDSException
    entry = payload["entry"]
    out = {"plain": None, "import_error": None, "envs": []}

    # plain execution first (its modules are other modules: nothing is shared with the dds run)
    try:
        pm = importlib.import_module(payload["plain_module"])
        if payload.get("plain_pre"):
            getattr(pm, payload["plain_pre"])()
        out["plain"] = repr(getattr(pm, payload["plain_entry"]["fn"])(*payload["plain_entry"].get("args", [])))
    except BaseException as e:  # noqa
        out["plain"] = "exc:" + type(e).__name__ + ":" + str(e)[:200]

    apply_ops(root, payload.get("pre_ops"))
    for a in payload["accept"]:
        dds.accept_module(a)
    try:
        mod = importlib.import_module(payload["module"])
    except BaseException as e:  # noqa
        out["import_error"] = "exc:" + type(e).__name__ + ":" + str(e)[:400]
        print("@@RESULT@@" + json.dumps(out))
        return
    fun = getattr(mod, entry["fn"])
    default_limit = sys.getrecursionlimit()

    class RS(MemoryStore):
        def __init__(self):
            super().__init__()
            self.synced, self.stored = [], []

        def sync_paths(self, paths):
            self.synced.append({str(p): str(k) for p, k in paths.items()})
            return super().sync_paths(paths)

        def store_blob(self, key, blob, codec=None):
            self.stored.append(str(key))
            return super().store_blob(key, blob, codec)

    def evaluate():
        if entry["style"] == "eval":
            return dds.eval(fun, *entry.get("args", []))
        return dds.keep(entry["path"], fun, *entry.get("args", []))

    for env in payload["envs"]:
        res = {"name": env["name"], "error": None, "value": None, "synced": [], "stored": [], "ctx_left": False}
        store = RS()
        dds.set_store(store)
        if entry.get("pre"):
            sys.setrecursionlimit(ROOMY)
            getattr(mod, entry["pre"])()
            store.pre_synced, store.synced = store.synced, []
            store.pre_stored, store.stored = store.stored, []
        undo = apply_ops(root, env.get("ops"))
        if env.get("linecache") == "cleared":
            linecache.clearcache()
        box = {}

        def body(env=env, box=box):
            # everything that is environment is set up and torn down INSIDE the thread of the evaluation
            tr = env.get("tracer")
            try:
                sys.setrecursionlimit(env.get("reclimit") or default_limit)
                if tr == "settrace":
                    sys.settrace(lambda frame, event, arg: None)
                elif tr == "setprofile":
                    sys.setprofile(lambda frame, event, arg: None)
                try:
                    box["value"] = repr(at_depth(env.get("depth", 0), evaluate))
                finally:
                    sys.settrace(None)
                    sys.setprofile(None)
                    sys.setrecursionlimit(ROOMY)
            except DDSException as e:
                box["error"] = "dds:" + (e.error_code.name if getattr(e, "error_code", None) is not None else "NONE") + ":" + str(e)[:300]
            except (KeyboardInterrupt, SystemExit):
                raise
            except BaseException as e:  # noqa
                box["error"] = "exc:" + type(e).__name__ + ":" + str(e)[:300]

        if env.get("thread"):
            t = threading.Thread(target=body)
            t.start()
            t.join()
        else:
            body()
        sys.setrecursionlimit(default_limit)
        for u in reversed(undo):
            u()
        res["value"], res["error"] = box.get("value"), box.get("error")
        res["synced"], res["stored"] = store.synced, store.stored
        if entry.get("pre"):
            res["pre_synced"] = store.pre_synced
        # an evaluation that died inside the library's own clean-up leaves the evaluation context set: noted, then reset
        # (the next environment must start from the state a fresh evaluation starts from)
        res["ctx_left"] = _api._eval_ctx is not None
        _api._eval_ctx = None
        out["envs"].append(res)
    print("@@RESULT@@" + json.dumps(out))


if __name__ == "__main__":
    main()
