"""C01 - memoized evaluation returns exactly what plain execution would return (also serves C02 / C04 data)."""
import concurrent.futures as cf
import copy
import json
import random

import common as C
import hist
import progs as P
import values as V

COQ_FILES = ("Base/Bytes.v", "Base/Sha256.v", "L0_Hash/DdsHash.v", "L1_Args/ArgCtx.v", "L3_Sig/Program.v", "L3_Sig/Sig.v",
             "L3_Sig/RunSig.v", "L4_Eval/DdsEval.v", "L4_Eval/RunEval.v", "L4_Eval/EvalProofs.v", "L3_Sig/SigTree.v", "L3_Sig/SigTreeProofs.v", "L4_Eval/SoundnessDefs.v", "L4_Eval/SoundnessA.v", "L4_Eval/Soundness.v",
             "Properties/C01.v", "Properties/C01b.v", "Properties/C01c.v")
PROPERTY_FILES = ("C01", "C01b", "C01c")
EXTRACTED = ("ConstHash", "ConstSig", "ConstStages")
ALLOWED_AXIOMS = ()


def gen_history(rng, n_steps):
    """A program, a root call and a sequence of edits / reverts / restarts / in-process variable changes."""
    prog = P.gen_program(rng, allow_classes=(rng.random() < 0.34))      # every third pipeline may contain plain classes
    call = P.root_call(prog, rng)
    versions = [copy.deepcopy(prog)]
    events = [("prog", prog), ("act", call)]
    desc = []
    cur = prog
    for _ in range(n_steps):
        r = rng.random()
        if r < 0.15 and len(versions) > 1:
            cur = copy.deepcopy(rng.choice(versions[:-1]))
            events.append(("prog", cur))
            desc.append("revert")
        elif r < 0.25:
            events.append(("restart",))
            desc.append("restart")
        elif r < 0.40:
            # in-process edit of a tracked variable read by a reachable function
            cands = [(m, v) for (m, n) in P.reachable(cur, *cur["root"]) for v in P.find_func(cur, m, n)["reads"]]
            if cands:
                m, v = rng.choice(cands)
                new = rng.choice([x for x in P.VAR_VALUES if V.canon(x) != V.canon(cur["modules"][m]["vars"][v])])
                events.append(("act", {"a": "setvar", "mod": m, "name": v, "value": new}))
                cur = copy.deepcopy(cur)
                cur["modules"][m]["vars"][v] = new
                desc.append("setvar")
            else:
                desc.append("noop")
        else:
            cat = P.edit_catalogue(cur, rng)
            kind, info, cur = rng.choice(cat)
            cur = copy.deepcopy(cur)
            events.append(("prog", cur))
            desc.append(kind)
        versions.append(copy.deepcopy(cur))
        c2 = dict(call)
        if rng.random() < 0.2 and not P.find_func(cur, *cur["root"]).get("annot"):
            c2["style"] = "eval" if call.get("style") == "keep" else call.get("style", "eval")
        events.append(("act", c2))
    return events, desc


def classify_stale(rec, desc, events):
    """Finding key of a wrong (stale / foreign) value: which construct it needs."""
    return "stale:" + "+".join(sorted(set(d for d in desc if d not in ("restart", "noop"))))[:60]


def one_history(args):
    seed, n_steps, store_kind = args
    rng = random.Random(seed)
    events, desc = gen_history(rng, n_steps)
    try:
        recs = hist.run_history(events, store_kind=store_kind)
    except Exception as e:  # noqa
        return {"seed": seed, "error": str(e)[-1500:], "desc": desc}
    out = {"seed": seed, "desc": desc, "n_actions": len(recs), "diffs": [], "wrong": [], "events": None, "log_lens": []}
    for i, r in enumerate(recs):
        if r["act"]["a"] == "setvar":
            continue
        d = hist.compare(r)
        if d:
            out["diffs"].append({"action": i, "diffs": d[:3]})
        if r["impl"]["out"] != r["ref"]["out"]:
            out["wrong"].append({"action": i, "impl": r["impl"]["out"], "reference": r["ref"]["out"], "log": r["impl"]["log"]})
        out["log_lens"].append(len(r["impl"]["log"]))
    if out["diffs"] or out["wrong"]:
        out["events"] = events
    out["sample"] = {"entry": recs[0]["act"], "first_outcome": recs[0]["impl"]["out"][:80], "logs": [r["impl"]["log"] for r in recs if "log" in r["impl"]][:4]}
    return out


def run(rep, tier, seed, proof_ok):
    n_hist = 24 if tier == "quick" and proof_ok else 160
    n_steps = 3 if tier == "quick" else 5
    rep.rule = (f"{n_hist} random pipelines (2..8 functions, 1..3 modules of an accepted package: helpers, data functions, keeps with "
                "literal / run-time / default / keyword arguments, single- and multi-line keep calls, import aliases and module "
                "attributes, by-name references, tracked variables of every supported type) x histories of "
                f"{n_steps} steps drawn from {{edit of a reachable body / tracked variable / literal argument, unrelated definitions, "
                "reordering, non-accepted code, revert to an earlier version, restart, in-process variable change, entry-style switch}} "
                "against a local store (1 in 4: memory store, single process); every call is run by the real dds, by a dds-free "
                "reference run of the same files and by the Coq model (dds semantics and plain semantics); distinct = distinct history; "
                "non-trivial = at least one call served a kept node from the store and at least one edit re-executed something; "
                f"NAMES dimension (c01_names.py): {10 if tier == 'quick' else 72} further generated pipelines whose module variables, functions, classes and "
                "parameters are consistently renamed (all versions of a history) to names of Python builtins (max, format, type, id, ...), "
                "soft keywords / keyword look-alikes, names of dds' own API and modules, names of importable modules / of the package / of "
                "sibling modules, underscore and dunder-like names, single letters, unicode identifiers (pairs differing by an accent), case "
                "variants, and names shared between a variable and a parameter of another function / a function of another module / a "
                "variable of another module (one class is the focus of each history in turn); the history edits what was renamed (value of "
                "a renamed tracked variable in the file or in the running process, body of a renamed function, literal bound to a renamed "
                "parameter), reverts and restarts; same three-way comparison (1 in 5 without the model: keep callees named like builtins); "
                "plus 12 hand-written functions over settings named max / format / type / _ / unicode / keep / json edited 1 -> 2 -> 1 "
                "between processes, compared with calling the function plainly")
    rep.assumptions += ["generated programs are in the supported subset W1-W8 of DESIGN.md 4.2",
                        "SHA-256 idealisation of DESIGN.md 4.4 for the theorems about signatures"]
    jobs = [(seed * 100000 + i, n_steps, "local") for i in range(n_hist)]
    with cf.ThreadPoolExecutor(max_workers=min(12, C.NPROC)) as ex:
        results = list(ex.map(one_history, jobs))
    kinds = {}
    for res in results:
        if "error" in res:
            rep.violation("harness-error:history", "history could not be run: " + res["error"][-300:], res, no_input=True)
            continue
        nontrivial = any(n == 0 or n < max(res["log_lens"]) for n in res["log_lens"][1:]) and any(d not in ("restart", "noop") for d in res["desc"])
        rep.case(f"hist-{res['seed']}", nontrivial)
        for d in res["desc"]:
            kinds[d] = kinds.get(d, 0) + 1
        if res["wrong"]:
            rep.violation(classify_stale(res, res["desc"], res["events"]),
                          f"dds returned a value different from plain execution: {res['wrong'][0]}",
                          {"seed": res["seed"], "desc": res["desc"], "wrong": res["wrong"], "events": res["events"]})
        if res["diffs"]:
            rep.violation("model-mismatch:" + res["diffs"][0]["diffs"][0][0],
                          f"implementation and model disagree: {json.dumps(res['diffs'][0])[:300]}",
                          {"seed": res["seed"], "desc": res["desc"], "diffs": res["diffs"], "events": res["events"]})
        rep.sample(res["sample"], cap=3)
    rep.extra["input_distribution"] = {"histories": len(results), "steps_by_kind": kinds,
                                       "actions": sum(r.get("n_actions", 0) for r in results)}
    import c01_names
    c01_names.run(rep, tier, seed, proof_ok)
    import c01_targeted
    c01_targeted.run(rep, tier, seed, proof_ok)
    import c01_syntax
    c01_syntax.run(rep, tier, seed, proof_ok)


def replay(path):
    r = json.load(open(path))["replay"]
    if "module_template" in r:      # hand-written files of the names dimension
        import c01_names
        return c01_names.replay_raw(r)
    events = [tuple(e) for e in r["events"]]
    for e in events:
        if e[0] == "prog":
            e[1]["root"] = tuple(e[1]["root"])
            for m in e[1]["modules"].values():
                for f in m["funcs"]:
                    for st in f["stmts"]:
                        if "callee" in st:
                            st["callee"] = tuple(st["callee"])
    recs = hist.run_history(events, run_model=r.get("run_model", True))
    bad = False
    for i, rec in enumerate(recs):
        if rec["act"]["a"] == "setvar":
            continue
        print(i, rec["act"].get("fn"), "impl:", rec["impl"]["out"][:100], "| reference:", rec["ref"]["out"][:100], "| log:", rec["impl"]["log"])
        bad = bad or rec["impl"]["out"] != rec["ref"]["out"] or bool(hist.compare(rec))
    print("REPRODUCED" if bad else "not reproduced")
    return 1 if bad else 0
