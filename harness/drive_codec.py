"""Implementation driver for C17: codecs.  One process; stdin: {"dir": store dir, "kind": "local"|"memory", "steps": [...]}"""
import json
import os
import pickle
import sys

sys.path.insert(0, os.path.dirname(os.path.abspath(__file__)))


class UserThing(object):
    def __init__(self, x):
        self.x = x

    def __eq__(self, o):
        return isinstance(o, UserThing) and o.x == self.x


import enum


class Color(str, enum.Enum):
    RED = "red"
    GREEN = "green"


class TaggedStr(str):
    def __new__(cls, s, source):
        o = super().__new__(cls, s)
        o.source = source
        return o

    def __reduce__(self):
        return (TaggedStr, (str(self), self.source))

    def __eq__(self, o):
        return isinstance(o, TaggedStr) and str(o) == str(self) and o.source == self.source

    def __hash__(self):
        return hash(str(self))


class Digest(bytes):
    pass


def base_frame(n=8):
    import pandas
    return pandas.DataFrame({"k": list("abcdefgh")[:n], "v": [float(i) for i in range(n)], "i": list(range(10, 10 + n))})


def _renamed_index(df, name):
    df = df.copy()
    df.index.name = name
    return df


def _frames():
    """The catalogue of pandas frames, by name: each entry sits at a boundary of what the parquet file written by the pandas codec has to
    carry besides the cells (the index: its labels, kind, names; the dtypes; the labels and names of the columns; the attrs)."""
    import numpy
    import pandas as pd
    B = base_frame
    stamps = ["2020-01-01", "2020-03-01 12:00", "2019-12-31"]

    def with_attrs():
        df = B()
        df.attrs = {"source": "sensor-7", "unit": "m"}
        return df

    def columns_named():
        df = B()
        df.columns.name = "fields"
        return df

    return {
        # --- the index: positional (RangeIndex) in every form that slicing produces
        "default": lambda: B(),
        "range_offset": lambda: B().iloc[3:],                       # rows left after dropping header rows: labels 3..7
        "range_step": lambda: B().iloc[::2],                        # every other row: labels 0, 2, 4, 6
        "range_offset_step": lambda: B().iloc[1::3],                # labels 1, 4, 7
        "range_reversed": lambda: B().iloc[::-1],                   # labels 7..0
        "range_named": lambda: _renamed_index(B(), "row"),
        "range_offset_named": lambda: _renamed_index(B().iloc[2:6], "row"),
        "range_from_one": lambda: B().set_axis(pd.RangeIndex(1, 9), axis=0),     # 1-based row numbers
        "range_empty_slice": lambda: B().iloc[5:5],                 # no row, RangeIndex(5, 5)
        "range_one_row": lambda: B().iloc[6:7],
        # --- the index: integer labels
        "int_selected": lambda: B()[B().v % 2 == 1],                # boolean selection: labels 1, 3, 5, 7
        "int_selected_none": lambda: B()[B().v > 100],              # boolean selection that keeps nothing
        "int_duplicated": lambda: B().set_axis([3, 1, 3, 0, 7, 7, 2, 1], axis=0),
        "int_named": lambda: B().set_index("i"),
        "int_sorted_values": lambda: B().sort_values("v", ascending=False),      # labels 7..0 as plain integers
        "uint8_index": lambda: B(3).set_axis(pd.Index([1, 2, 3], dtype="uint8"), axis=0),
        "float_index": lambda: B(3).set_axis([0.5, -1.0, 2.25], axis=0),
        "bool_index": lambda: B(3).set_axis([True, False, True], axis=0),
        # --- the index: other kinds of labels
        "str_index": lambda: B().set_index("k"),
        "str_index_unnamed": lambda: B().set_axis(list("hgfedcba"), axis=0),
        "str_index_non_ascii": lambda: B(3).set_axis(["é", "", "😀 x"], axis=0),
        "multi_index": lambda: B().set_index(["k", "i"]),
        "multi_index_unnamed": lambda: B().set_axis(pd.MultiIndex.from_arrays([list("aabbccdd"), [1, 2] * 4]), axis=0),
        "multi_index_half_named": lambda: B().set_axis(pd.MultiIndex.from_arrays([list("aabbccdd"), [1, 2] * 4], names=["g", None]), axis=0),
        "datetime_index": lambda: B(3).set_axis(pd.DatetimeIndex(stamps), axis=0),
        "datetime_index_regular": lambda: B().set_axis(pd.date_range("2020-01-01", periods=8, freq="D"), axis=0),
        "datetime_index_tz": lambda: B(3).set_axis(pd.DatetimeIndex(stamps, tz="Europe/Paris"), axis=0),
        "timedelta_index": lambda: B(3).set_axis(pd.to_timedelta([0, 90, 3600], unit="s"), axis=0),
        "period_index": lambda: B(3).set_axis(pd.period_range("2020-01", periods=3, freq="M"), axis=0),
        "categorical_index": lambda: B(3).set_axis(pd.CategoricalIndex(["lo", "hi", "lo"], categories=["lo", "hi", "mid"]), axis=0),
        "index_named_like_a_column": lambda: B().set_axis(pd.Index(range(8), name="v"), axis=0),
        "index_named_index": lambda: B().set_axis(pd.Index(list("hgfedcba"), name="index"), axis=0),
        # --- the cells: one frame per family of dtypes
        "categorical_columns": lambda: pd.DataFrame({"c": pd.Categorical(["a", "b", "a", None], categories=["b", "a", "z"]),
                                                     "o": pd.Categorical(["lo", "hi", "lo", "hi"], categories=["lo", "hi"], ordered=True)}),
        "datetime_columns": lambda: pd.DataFrame({"d": pd.to_datetime(["2020-01-01", None, "2262-01-01"]),
                                                  "z": pd.to_datetime(["2020-01-01", "2020-06-01", None]).tz_localize("UTC"),
                                                  "t": pd.to_timedelta([1, None, 3], unit="s")}),
        "nullable_columns": lambda: pd.DataFrame({"i": pd.array([1, None, 3], dtype="Int64"), "b": pd.array([True, None, False], dtype="boolean"),
                                                  "s": pd.array(["x", None, "é"], dtype="string"), "f": pd.array([1.5, None, 2], dtype="Float64")}),
        "object_columns": lambda: pd.DataFrame({"o": ["x", None, "y\r\nz"], "by": [b"\x00\xff", b"", None]}),
        "float_columns": lambda: pd.DataFrame({"f": [float("nan"), float("inf"), -0.0, 5e-324], "g": numpy.array([1, 2, 3, 4], dtype="float32")}),
        "small_int_columns": lambda: pd.DataFrame({"a": numpy.array([-128, 127], dtype="int8"), "b": numpy.array([0, 2 ** 64 - 1], dtype="uint64"), "c": [True, False]}),
        "interval_column": lambda: pd.DataFrame({"iv": pd.interval_range(0, 3)}),
        "list_column": lambda: pd.DataFrame({"l": [[1, 2], [], None]}),
        "mixed_object_column": lambda: pd.DataFrame({"m": [1, "a", None]}),
        # --- the shape and the labels of the columns
        "no_row": lambda: B().iloc[0:0],
        "no_row_no_column": lambda: pd.DataFrame(),
        "no_column": lambda: pd.DataFrame(index=pd.RangeIndex(3)),                 # three rows, no column
        "no_column_labelled": lambda: pd.DataFrame(index=["a", "b"]),
        "one_cell": lambda: pd.DataFrame({"x": [1]}),
        "wide": lambda: pd.DataFrame({f"c{j:03d}": [j, j + 1] for j in range(300)}),
        "wide_sliced": lambda: pd.DataFrame({f"c{j:03d}": [j, j + 1, j + 2] for j in range(300)}).iloc[1:],
        "column_names_text": lambda: pd.DataFrame({"é ✓": [1], "a.b": [2], "": [3], "index": [4], "__index_level_0__x": [5], "level_0": [6]}),
        "column_names_int": lambda: pd.DataFrame({0: [1, 2], 1: [3, 4]}),
        "column_names_mixed": lambda: pd.DataFrame({0: [1, 2], "a": [3, 4]}),
        "column_names_duplicated": lambda: pd.DataFrame([[1, 2]], columns=["a", "a"]),
        "columns_named": columns_named,
        "multi_columns": lambda: pd.DataFrame([[1, 2, 3], [4, 5, 6]], columns=pd.MultiIndex.from_tuples([("a", "x"), ("a", "y"), ("b", "x")])),
        "multi_columns_sliced": lambda: pd.DataFrame([[1, 2, 3], [4, 5, 6], [7, 8, 9]], columns=pd.MultiIndex.from_tuples([("a", "x"), ("a", "y"), ("b", "x")], names=["u", "w"])).iloc[1:],
        "with_attrs": with_attrs,
        # --- large (several row groups / pages)
        "large_sliced": lambda: pd.DataFrame({"x": numpy.arange(300000), "s": ["r%d" % i for i in range(300000)]}).iloc[1000:],
        "large_labelled": lambda: pd.DataFrame({"x": numpy.arange(200000)}, index=["r%d" % i for i in range(200000)]),
    }


def _series():
    import pandas as pd
    return {
        "default": lambda: pd.Series([1.5, 2.5, float("nan")]),
        "named_sliced": lambda: pd.Series(list(range(8)), name="v").iloc[3:],
        "str_index": lambda: pd.Series([1, 2], index=pd.Index(["a", "é"], name="k"), name="n"),
        "empty": lambda: pd.Series([], dtype="float64"),
        "categorical": lambda: pd.Series(pd.Categorical(["a", "b", "a"], categories=["b", "a"], ordered=True)),
    }


CALLS = {}


def note_call(name):
    """execution log of the functions of the generated module of drive_codec_api.py (not a tracked variable: this module is not accepted)"""
    CALLS[name] = CALLS.get(name, 0) + 1


def make_value(spec):
    t = spec[0]
    if t == "frame" and len(spec) > 1:
        return _frames()[spec[1]]()
    if t == "series":
        return _series()[spec[1]]()
    if t == "strenum":
        return Color.GREEN
    if t == "strsub":
        return TaggedStr("payload", "sensor-7")
    if t == "bytessub":
        return Digest(b"\x01\x02")
    if t == "boolval":
        return True
    if t == "str":
        return spec[1]
    if t == "bytes":
        return bytes.fromhex(spec[1])
    if t == "bytearray":
        return bytearray(bytes.fromhex(spec[1]))
    if t == "none":
        return None
    if t == "object":
        return {"a": [1, 2.5, None], "b": ("x", b"y")}
    if t == "int":
        return spec[1]
    if t == "user":
        return UserThing(spec[1])
    if t == "frame":
        import pandas
        return pandas.DataFrame({"a": [1, 2, 3], "b": ["x", "y", "é"]})
    raise ValueError(t)


def _labels(ix):
    s = repr(list(ix[:6]))[:-1] + (", ...]" if len(ix) > 6 else "]")
    return f"{type(ix).__name__}{s}" + (f" names={list(ix.names)}" if any(n is not None for n in ix.names) else "")


def pandas_diff(got, want):
    """None when the frame (the series) got is the frame want: cells, dtypes, labels / dtype / names of the index and of the columns,
    categories, frequency of a regular date index, attrs; otherwise a short description of the first difference."""
    import pandas
    if type(got) is not type(want):
        return f"a {type(got).__name__}: {got!r}"[:70]
    try:
        if isinstance(want, pandas.DataFrame):
            pandas.testing.assert_frame_equal(got, want, check_exact=True, check_freq=False)   # the frequency attribute of an index is not part of equality (DataFrame.equals)
        else:
            pandas.testing.assert_series_equal(got, want, check_exact=True, check_freq=False)   # the frequency attribute of an index is not part of equality (DataFrame.equals)
    except AssertionError as e:
        msg = " ".join(str(e).split())[:90]
        if got.shape != want.shape:
            msg = f"shape {got.shape} instead of {want.shape} :: " + msg
        elif not got.index.equals(want.index) or list(got.index.names) != list(want.index.names):
            msg = f"index {_labels(got.index)} instead of {_labels(want.index)} :: " + msg
        return msg
    if got.attrs != want.attrs:
        return f"attrs {got.attrs!r} instead of {want.attrs!r}"
    if not got.equals(want):
        return "DataFrame.equals is false"
    return None


def is_pandas(v):
    return type(v).__module__.split(".")[0] == "pandas"


def bare_roundtrip(value):
    """What the parquet format itself (pandas.DataFrame.to_parquet / pandas.read_parquet with their defaults, no dds) does to a frame.
    Only used to CLASSIFY a difference (the expected value always is the value that was stored): 'equal', 'altered:...', 'refused:...'."""
    import pandas
    import tempfile
    if not isinstance(value, pandas.DataFrame):
        return "n/a"
    with tempfile.TemporaryDirectory(prefix="c17bare_") as td:
        p = os.path.join(td, "f.parquet")
        try:
            value.to_parquet(p)
        except Exception as e:  # noqa
            return "refused:" + type(e).__name__
        d = pandas_diff(pandas.read_parquet(p), value)
        return "equal" if d is None else "altered:" + d


def compare(got, spec, bare=None):
    """'equal' | 'DIFFERENT:...' ; for a frame that differs, 'ASBARE:...' when the frame read back is exactly what the bare parquet round
    trip gives (the difference is then a property of the format the codec documents, not of the way dds uses it)."""
    want = make_value(spec)
    if is_pandas(want) or is_pandas(got):
        d = pandas_diff(got, want)
        if d is None:
            return "equal"
        import pandas
        if isinstance(want, pandas.DataFrame) and isinstance(got, pandas.DataFrame):
            import tempfile
            with tempfile.TemporaryDirectory(prefix="c17bare_") as td:
                p = os.path.join(td, "f.parquet")
                try:
                    want.to_parquet(p)
                    if pandas_diff(got, pandas.read_parquet(p)) is None:
                        return "ASBARE:" + d
                except Exception:  # noqa
                    pass
        return "DIFFERENT:" + d
    return "equal" if equal(got, want) else "DIFFERENT:" + repr(got)[:60]


def equal(a, b):
    if is_pandas(a) or is_pandas(b):
        return pandas_diff(a, b) is None
    if type(a) in (Color, TaggedStr, Digest) or type(b) in (Color, TaggedStr, Digest):
        return type(a) == type(b) and a == b
    return a == b and (type(a) == type(b) or isinstance(a, (bytes, bytearray)))


def make_codec(spec):
    from dds.structures import FileCodecProtocol, CodecProtocol, ProtocolRef, SupportedType
    from dds.structures_utils import SupportedTypeUtils as STU
    kind, ref, tname = spec["kind"], spec["ref"], spec["type"]
    types = {"str": [STU.from_type(str)], "bytes": [STU.from_type(bytes)], "user": [STU.from_type(UserThing)], "object": [SupportedType("object")],
             "none": [STU.from_type(type(None))]}[tname]
    tag = ("@" + ref + "@").encode()

    class FC(FileCodecProtocol):
        def ref(self):
            return ProtocolRef(ref)

        def handled_types(self):
            return types

        def serialize_into(self, blob, loc):
            with open(str(loc), "wb") as f:
                f.write(tag + pickle.dumps(blob))

        def deserialize_from(self, loc):
            with open(str(loc), "rb") as f:
                data = f.read()
            assert data.startswith(tag), (data[:20], tag)
            return pickle.loads(data[len(tag):])

    class CC(CodecProtocol):
        def ref(self):
            return ProtocolRef(ref)

        def handled_types(self):
            return types

        def serialize_into(self, blob, loc):
            with open(str(loc), "wb") as f:
                f.write(tag + pickle.dumps(blob))

        def deserialize_from(self, loc):
            with open(str(loc), "rb") as f:
                data = f.read()
            assert data.startswith(tag), (data[:20], tag)
            return pickle.loads(data[len(tag):])
    return FC() if kind == "file" else CC()


def main():
    payload = json.load(sys.stdin)
    from dds.store import LocalFileStore
    from dds.codec import codec_registry
    from dds.structures import DDSException
    d = payload["dir"]
    store = LocalFileStore(os.path.join(d, "int"), os.path.join(d, "dat"))
    out = []
    for st in payload["steps"]:
        try:
            if "register" in st:
                c = make_codec(st["register"])
                if st["register"]["kind"] == "file":
                    codec_registry().add_file_codec(c)
                else:
                    codec_registry().add_codec(c)
                out.append("U")
            elif "store" in st:
                store.store_blob(st["key"], make_value(st["store"]), None)
                meta = json.load(open(os.path.join(d, "int", "blobs", st["key"] + ".meta")))
                out.append("S:" + meta["protocol"])
            elif "store_killed" in st:
                # the process is killed between the rename of the blob and the rename of its metadata
                real_replace = os.replace

                def dying_replace(src, dst, *a, **k):
                    if str(dst).endswith(".meta"):
                        print("@@RESULT@@" + json.dumps(out + ["K"]))
                        sys.stdout.flush()
                        os._exit(0)
                    return real_replace(src, dst, *a, **k)
                os.replace = dying_replace
                try:
                    store.store_blob(st["key"], make_value(st["store_killed"]), None)
                finally:
                    os.replace = real_replace
                out.append("S:not-killed")
            elif "fetch" in st:
                v = store.fetch_blob(st["key"])
                out.append("F:" + compare(v, st["fetch"]))
            elif "bare" in st:
                out.append("P:" + bare_roundtrip(make_value(st["bare"])))
            elif "tool" in st:
                # another tool: the file that the path designates under the data directory, opened with plain pandas
                import pandas
                store.sync_paths({st["path"]: st["key"]})
                got = pandas.read_parquet(os.path.join(d, "dat", *[x for x in st["path"].split("/") if x]))
                out.append("T:" + compare(got, st["tool"]))
            elif "raw" in st:
                out.append("R:" + open(os.path.join(d, "int", "blobs", st["key"]), "rb").read().hex())
            elif "has" in st:
                out.append("B1" if store.has_blob(st["key"]) else "B0")
        except DDSException as e:
            c = getattr(e, "error_code", None)
            out.append("E:" + (c.name if c is not None else "NONE"))
        except BaseException as e:  # noqa
            out.append("X:" + type(e).__name__ + ":" + str(e)[:80])
    print("@@RESULT@@" + json.dumps(out))


if __name__ == "__main__":
    main()
