"""Implementation driver for C17: codecs.  One process; stdin: {"dir": store dir, "kind": "local"|"memory", "steps": [...]}"""
import json
import os
import pickle
import sys

sys.path.insert(0, os.path.dirname(os.path.abspath(__file__)))


class UserThing(object):
    def __init__(self, x):
        self.x = x

    def __eq__(self, o):
        return isinstance(o, UserThing) and o.x == self.x


import enum


class Color(str, enum.Enum):
    RED = "red"
    GREEN = "green"


class TaggedStr(str):
    def __new__(cls, s, source):
        o = super().__new__(cls, s)
        o.source = source
        return o

    def __reduce__(self):
        return (TaggedStr, (str(self), self.source))

    def __eq__(self, o):
        return isinstance(o, TaggedStr) and str(o) == str(self) and o.source == self.source

    def __hash__(self):
        return hash(str(self))


class Digest(bytes):
    pass


def make_value(spec):
    t = spec[0]
    if t == "strenum":
        return Color.GREEN
    if t == "strsub":
        return TaggedStr("payload", "sensor-7")
    if t == "bytessub":
        return Digest(b"\x01\x02")
    if t == "boolval":
        return True
    if t == "str":
        return spec[1]
    if t == "bytes":
        return bytes.fromhex(spec[1])
    if t == "bytearray":
        return bytearray(bytes.fromhex(spec[1]))
    if t == "none":
        return None
    if t == "object":
        return {"a": [1, 2.5, None], "b": ("x", b"y")}
    if t == "int":
        return spec[1]
    if t == "user":
        return UserThing(spec[1])
    if t == "frame":
        import pandas
        return pandas.DataFrame({"a": [1, 2, 3], "b": ["x", "y", "é"]})
    raise ValueError(t)


def equal(a, b):
    try:
        import pandas
        if isinstance(a, pandas.DataFrame) or isinstance(b, pandas.DataFrame):
            return isinstance(a, pandas.DataFrame) and isinstance(b, pandas.DataFrame) and a.equals(b)
    except ImportError:
        pass
    if type(a) in (Color, TaggedStr, Digest) or type(b) in (Color, TaggedStr, Digest):
        return type(a) == type(b) and a == b
    return a == b and (type(a) == type(b) or isinstance(a, (bytes, bytearray)))


def make_codec(spec):
    from dds.structures import FileCodecProtocol, CodecProtocol, ProtocolRef, SupportedType
    from dds.structures_utils import SupportedTypeUtils as STU
    kind, ref, tname = spec["kind"], spec["ref"], spec["type"]
    types = {"str": [STU.from_type(str)], "bytes": [STU.from_type(bytes)], "user": [STU.from_type(UserThing)], "object": [SupportedType("object")],
             "none": [STU.from_type(type(None))]}[tname]
    tag = ("@" + ref + "@").encode()

    class FC(FileCodecProtocol):
        def ref(self):
            return ProtocolRef(ref)

        def handled_types(self):
            return types

        def serialize_into(self, blob, loc):
            with open(str(loc), "wb") as f:
                f.write(tag + pickle.dumps(blob))

        def deserialize_from(self, loc):
            with open(str(loc), "rb") as f:
                data = f.read()
            assert data.startswith(tag), (data[:20], tag)
            return pickle.loads(data[len(tag):])

    class CC(CodecProtocol):
        def ref(self):
            return ProtocolRef(ref)

        def handled_types(self):
            return types

        def serialize_into(self, blob, loc):
            with open(str(loc), "wb") as f:
                f.write(tag + pickle.dumps(blob))

        def deserialize_from(self, loc):
            with open(str(loc), "rb") as f:
                data = f.read()
            assert data.startswith(tag), (data[:20], tag)
            return pickle.loads(data[len(tag):])
    return FC() if kind == "file" else CC()


def main():
    payload = json.load(sys.stdin)
    from dds.store import LocalFileStore
    from dds.codec import codec_registry
    from dds.structures import DDSException
    d = payload["dir"]
    store = LocalFileStore(os.path.join(d, "int"), os.path.join(d, "dat"))
    out = []
    for st in payload["steps"]:
        try:
            if "register" in st:
                c = make_codec(st["register"])
                if st["register"]["kind"] == "file":
                    codec_registry().add_file_codec(c)
                else:
                    codec_registry().add_codec(c)
                out.append("U")
            elif "store" in st:
                store.store_blob(st["key"], make_value(st["store"]), None)
                meta = json.load(open(os.path.join(d, "int", "blobs", st["key"] + ".meta")))
                out.append("S:" + meta["protocol"])
            elif "store_killed" in st:
                # the process is killed between the rename of the blob and the rename of its metadata
                real_replace = os.replace

                def dying_replace(src, dst, *a, **k):
                    if str(dst).endswith(".meta"):
                        print("@@RESULT@@" + json.dumps(out + ["K"]))
                        sys.stdout.flush()
                        os._exit(0)
                    return real_replace(src, dst, *a, **k)
                os.replace = dying_replace
                try:
                    store.store_blob(st["key"], make_value(st["store_killed"]), None)
                finally:
                    os.replace = real_replace
                out.append("S:not-killed")
            elif "fetch" in st:
                v = store.fetch_blob(st["key"])
                out.append("F:" + ("equal" if equal(v, make_value(st["fetch"])) else "DIFFERENT:" + repr(v)[:60]))
            elif "raw" in st:
                out.append("R:" + open(os.path.join(d, "int", "blobs", st["key"]), "rb").read().hex())
            elif "has" in st:
                out.append("B1" if store.has_blob(st["key"]) else "B0")
        except DDSException as e:
            c = getattr(e, "error_code", None)
            out.append("E:" + (c.name if c is not None else "NONE"))
        except BaseException as e:  # noqa
            out.append("X:" + type(e).__name__ + ":" + str(e)[:80])
    print("@@RESULT@@" + json.dumps(out))


if __name__ == "__main__":
    main()
