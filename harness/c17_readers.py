"""C17 - the READING process's registry as a dimension.

A writer process registers user codecs under references of every shape and writes one value with each (the format of a user codec is its own:
only that codec recovers the value; it is chosen so that the builtin codec of the same kind would read the file without failing).  Reader
processes of every class then read each blob through store.fetch_blob and through dds.load:

  same          registered the writing codecs (among unrelated ones, in another order)                 -> the value, equal
  none          registered nothing                                                                      -> the DDS error PROTOCOL_NOT_FOUND
  near          registered OTHER codecs under near-miss references (other case, one more / one less
                segment, 'local.<last segment>' is builtin and stays, the legacy spelling)               -> PROTOCOL_NOT_FOUND
  other         registered ANOTHER codec under the same reference                                       -> decoded by that codec (the one bound
                                                                                                           to the reference), never by a builtin
  later         reads (PROTOCOL_NOT_FOUND), then registers the writing codecs, reads again              -> error, then the value, equal
  rebind-file   registered the writing codec, then another FILE codec under the same reference          -> the value (a file codec never rebinds)
  rebind-codec  registered another file codec under the reference, then the writing codec as a CODEC    -> the value (a codec rebinds)

Blobs written by the builtin codecs in the same store are read by every class (controls: the value, equal).  What is expected comes from the
property (a result is read back with the codec that wrote it - identified by its reference - or not at all) and from the Coq model of the
registry (select_by_ref; theorems C17_read_with_writer_codec, C17_file_codec_never_rebinds); nothing here looks at the library."""
import concurrent.futures as cf
import json
import shutil
import tempfile

import common as C

NOT_FOUND = "E:PROTOCOL_NOT_FOUND"
# the references that the default registry of a store binds (documented: dds/codec.py, dds/codecs/databricks.py); a user reference is any other
BUILTIN_REFS = {"local": ["local.string", "local.bytes", "local.pickle", "local.pandas", "default.pandas_local"],
                "dbfs": ["local.string", "local.bytes", "local.pickle", "local.pandas", "dbfs.pyspark", "dbfs.string", "dbfs.bytes", "dbfs.pickle"]}
REF_SHAPES = {
    "ends like a builtin reference": ["gzip.bytes", "doc.string", "model.pickle", "table.pandas", "zlib.Bytes", "my.pyspark"],
    "several dots": ["proj.v2.string", "a.b.c.pickle", "acme.local.bytes", "x.local.pandas"],
    "a builtin reference but for the case": ["Local.String", "LOCAL.BYTES", "local.Pickle", "Local.pandas", "Default.Pandas_Local"],
    "prefix / extension of a builtin reference": ["local", "local.str", "local.byte", "local.pick", "local.string.v2", "local.bytes.gz", "xlocal.string",
                                                  "local.string2", "default.pandas", "default.pandas_local.v2", "local.pandas_local"],
    "a builtin reference but for a separator / a blank": ["local.string ", " local.bytes", "local/pickle", "local_string", ".string", "string", "local..string",
                                                          "local.bytes.", "local.pickle\n"],
    "legacy references of another store": ["dbfs.string", "dbfs.bytes", "dbfs.pickle", "dbfs.pandas", "DBFS.String", "dbfs.str", "old.dbfs.pickle"],
    "unrelated": ["user.thing", "acme", "codec-7", "é.ü"],
}
VALUES = [["str", "plain text"], ["bytes", "00ff10c3a9"], ["object"], ["str", "héllo ✓ 😀\r\n"], ["user", 3], ["bytes", ""], ["none"], ["int", 5], ["str", ""]]
CONTROLS = [["str", "héllo ✓"], ["bytes", "0d0a00ff"], ["object"], ["none"]]
CONTROL_REF = {"str": "local.string", "bytes": "local.bytes", "object": "local.pickle", "none": "local.pickle"}      # written by the builtin codecs, by reference
READERS = ["same", "none", "near", "other", "later", "rebind-file", "rebind-codec"]


def all_refs(store):
    return [(shape, r) for shape, rs in REF_SHAPES.items() for r in rs if r not in BUILTIN_REFS[store]]


def near_misses(ref, taken):
    """references that differ from ref by the case, by one segment more or less, by the first segment: none of them is ref"""
    head, _, last = ref.rpartition(".")
    cands = [ref.upper(), ref.lower(), ref.swapcase(), ref + ".v2", "x." + ref, head, last, "user." + last, ref.strip(), ref + " "]
    out = []
    for c in cands:
        if c and c != ref and c not in taken and c not in out:
            out.append(c)
    return out


def reader_cases(rng, tier, quick):
    """One deterministic case per store holding every reference shape once (value types in rotation, frames in it), then random cases."""
    cases = []
    for store in ("local", "dbfs"):
        refs = all_refs(store)
        if quick and store == "dbfs":
            refs = [x for i, x in enumerate(refs) if i % 3 == 0 or x[1].startswith(("dbfs", "DBFS"))]
        items = []
        for i, (shape, r) in enumerate(refs):
            # the value is of the kind that the end of the reference announces (so that the builtin codec of that kind would decode the file silently)
            like = r.strip(" .\n").rpartition(".")[2].lower()
            v = {"string": VALUES[(i % 3) * 3 % 9 if i % 3 != 2 else 8], "bytes": VALUES[5 if i % 2 else 1], "pickle": VALUES[(2, 4, 6, 7)[i % 4]],
                 "pandas": ["frame"] if store == "local" else VALUES[2]}.get(like, VALUES[i % len(VALUES)])
            items.append({"ref": r, "shape": shape, "kind": "file" if store == "dbfs" or i % 2 else "codec", "value": v})
        cases.append({"store": store, "items": items, "controls": CONTROLS, "readers": READERS, "unrelated": [{"kind": "file", "ref": "user.unrelated", "type": "str"}]})
    for i in range(2 if quick else 24):
        store = "dbfs" if i % 4 == 3 else "local"
        picked = rng.sample(all_refs(store), rng.randint(4, 7))
        items = [{"ref": r, "shape": shape, "kind": "file" if store == "dbfs" else rng.choice(["file", "codec"]), "value": rng.choice(VALUES)} for shape, r in picked]
        if not quick and store == "local" and i % 3 == 0:
            items[0]["value"] = ["frame"]
        unrelated = [{"kind": "file" if store == "dbfs" else rng.choice(["file", "codec"]), "ref": f"user.unrelated{j}", "type": rng.choice(["str", "bytes", "object", "user"])}
                     for j in range(rng.randint(0, 2))]
        cases.append({"store": store, "items": items, "controls": rng.sample(CONTROLS, 2), "readers": READERS, "unrelated": unrelated, "shuffle": rng.randrange(1, 10 ** 6)})
    return cases


def _reg(item, impl="own", kind=None, ref=None):
    return {"register": {"kind": kind or item["kind"], "ref": ref or item["ref"], "type": item["value"][0], "impl": impl}}


def programs(case):
    """The step lists of the processes of a case: {'writer': steps, reader class: steps}; a pure function of the case (a replay rebuilds them)."""
    import random
    rng = random.Random(case.get("shuffle", 0))
    items, store = case["items"], case["store"]
    taken = set(BUILTIN_REFS[store]) | {it["ref"] for it in items} | {u["ref"] for u in case["unrelated"]}
    unrelated = [{"register": u} for u in case["unrelated"]]
    writer = unrelated + [_reg(it) for it in items]
    reads = []
    for i, it in enumerate(items):
        writer.append({"store": it["value"], "key": f"k{i}", "ref": it["ref"], "path": f"/c17r/v{i}"})
        reads += [{"fetch": it["value"], "key": f"k{i}", "item": i}, {"load": it["value"], "path": f"/c17r/v{i}", "item": i}]
    for j, v in enumerate(case["controls"]):
        writer.append({"store": v, "key": f"c{j}", "ref": CONTROL_REF[v[0]], "path": f"/c17r/c{j}", "control": j})
        reads += [{"fetch": v, "key": f"c{j}", "control": j}, {"load": v, "path": f"/c17r/c{j}", "control": j}]
    writer += reads            # the writing process reads everything back too
    own = [_reg(it) for it in items]
    if "shuffle" in case:
        rng.shuffle(own)
    file_only = store == "dbfs"
    near = []
    for it in items:
        for r in near_misses(it["ref"], taken)[:3]:
            taken.add(r)
            near.append(_reg(it, impl="other", ref=r, kind="file" if file_only or len(near) % 2 else "codec"))
    out = {"writer": writer,
           "same": unrelated[::-1] + own + reads,
           "none": list(reads),
           "near": near + unrelated + reads,
           "other": [_reg(it, impl="other", kind="file" if file_only or i % 2 == 0 else "codec") for i, it in enumerate(items)] + reads,
           "later": reads + own + reads,
           "rebind-file": [_reg(it) for it in items] + [_reg(it, impl="other", kind="file") for it in items] + reads,
           "rebind-codec": [_reg(it, impl="other", kind="file") for it in items] + [_reg(it, kind="codec") for it in items if not file_only] + reads}
    return {k: v for k, v in out.items() if k == "writer" or k in case["readers"]}


def run_reader_case(case):
    d = tempfile.mkdtemp(prefix="c17r_", dir=C.scratch_dir())
    try:
        progs = programs(case)
        outs = {"writer": C.run_driver("drive_codec_readers.py", {"dir": d, "store": case["store"], "steps": progs["writer"]})}
        with cf.ThreadPoolExecutor(max_workers=4) as ex:       # the readers only read: they can run side by side
            for name, o in zip(case["readers"], ex.map(lambda n: C.run_driver("drive_codec_readers.py", {"dir": d, "store": case["store"], "steps": progs[n]}), case["readers"])):
                outs[name] = o
        return {"reader_case": case, "outs": outs}
    except Exception as e:  # noqa
        return {"reader_case": case, "error": str(e)[-400:]}
    finally:
        shutil.rmtree(d, ignore_errors=True)


def expected(reader, case, step, round_):
    """What the property demands of a read step ('item' reads a blob written by a user codec, 'control' one written by a builtin codec)."""
    if "control" in step:
        return "equal"
    if reader in ("writer", "same", "rebind-file"):
        return "equal"
    if reader == "rebind-codec":
        # on the DBFS store the writing codec cannot be registered as a (non-file) codec: the other file codec stays bound
        return "equal" if case["store"] != "dbfs" else "OTHER:" + case["items"][step["item"]]["ref"]
    if reader == "other":
        return "OTHER:" + case["items"][step["item"]]["ref"]
    if reader == "later":
        return NOT_FOUND if round_ == 0 else "equal"
    return NOT_FOUND


def observations(case, outs):
    """[(reader, round, step, observed, expected)] for every read step of every process"""
    progs = programs(case)
    for reader, steps in progs.items():
        seen = {}
        for st, o in zip(steps, outs.get(reader, [])):
            if "fetch" not in st and "load" not in st:
                continue
            k = json.dumps(st, sort_keys=True)
            round_ = seen.get(k, 0)
            seen[k] = round_ + 1
            o = o[2:] if o[:2] in ("F:", "L:") else o
            want = expected(reader, case, st, round_)
            yield reader, round_, st, o, want


def describe_value(v):
    return f"{v[0]} {v[1]!r}"[:40] if len(v) > 1 else v[0]


READER_TEXT = {"writer": "the writing process itself", "same": "a process that registered the writing codec", "none": "a process that registered no codec",
               "near": "a process that registered other codecs under near-miss references only", "other": "a process that registered ANOTHER codec under the same reference",
               "later": "a process that registers the writing codec after a first failed read", "rebind-file": "a process that registered the writing codec, then another file codec under the same reference",
               "rebind-codec": "a process that registered another file codec under the reference, then the writing codec as a codec"}


def check_readers(rep, res):
    found = {}            # key -> [(text, replay, ref)]
    dist = {"cases": len(res), "by_store": {}, "user_codec_blobs": 0, "by_reference_shape": {}, "reads_by_reader_class": {}, "reads_that_must_fail_with_PROTOCOL_NOT_FOUND": 0,
            "reads_that_must_return_the_value": 0, "reads_that_must_be_decoded_by_the_other_codec_bound_to_the_reference": 0, "control_reads_of_builtin_blobs": 0}
    for r in res:
        c = r["reader_case"]
        rep.case("readers:" + json.dumps(c)[:400], nontrivial=True)
        if "error" in r:
            rep.violation("harness-error:c17readers", r["error"][-300:], r, no_input=True)
            continue
        dist["by_store"][c["store"]] = dist["by_store"].get(c["store"], 0) + 1
        dist["user_codec_blobs"] += len(c["items"])
        for it in c["items"]:
            dist["by_reference_shape"][it["shape"]] = dist["by_reference_shape"].get(it["shape"], 0) + 1
        # the writer: every user codec wrote under its own reference
        progs = programs(c)
        for st, o in zip(progs["writer"], r["outs"]["writer"]):
            if "store" in st and "control" not in st and o != "S:" + st["ref"]:
                found.setdefault("written-under-another-reference", []).append(
                    (f"store_blob of a {describe_value(st['store'])} with the reference {st['ref']!r} of a registered user codec ({c['store']} store) gives {o[:80]}",
                     {"reader_case": dict(c, items=[c["items"][int(st['key'][1:])]], readers=[])}, st["ref"]))
        for reader, round_, st, o, want in observations(c, r["outs"]):
            dist["reads_by_reader_class"][reader] = dist["reads_by_reader_class"].get(reader, 0) + 1
            if "control" in st:
                dist["control_reads_of_builtin_blobs"] += 1
            elif want == NOT_FOUND:
                dist["reads_that_must_fail_with_PROTOCOL_NOT_FOUND"] += 1
            elif want == "equal":
                dist["reads_that_must_return_the_value"] += 1
            else:
                dist["reads_that_must_be_decoded_by_the_other_codec_bound_to_the_reference"] += 1
            if o == want:
                continue
            ch = "fetch_blob" if "fetch" in st else "dds.load"
            if "control" in st:
                key = f"readers:builtin-blob-differs:{reader}:{ch}"
                v = c["controls"][st["control"]]
                text = f"a {describe_value(v)} written by a builtin codec ({c['store']} store), read by {READER_TEXT[reader]}: {ch} gives {o[:90]}; expected the value"
                rp = {"reader_case": dict(c, controls=[v], readers=[reader] if reader != "writer" else [])}
                ref = "builtin"
            else:
                it = c["items"][st["item"]]
                kind = {NOT_FOUND: "unknown-codec-not-refused", "equal": "read-back-differs"}.get(want, "not-decoded-by-the-codec-bound-to-the-reference")
                key = f"readers:{kind}:{reader}{':after-registering' if reader == 'later' and round_ else ''}:{ch}"
                exp = {NOT_FOUND: "expected the DDS error PROTOCOL_NOT_FOUND (no codec of this process wrote it)", "equal": "expected the value that was stored"}.get(
                    want, "expected the blob to be handed to the codec that this process bound to the reference")
                text = (f"a {describe_value(it['value'])} written by the user {'file codec' if it['kind'] == 'file' else 'codec'} registered under {it['ref']!r} ({it['shape']}; {c['store']} store), read by "
                        f"{READER_TEXT[reader]}: {ch} gives {o[:110]}; {exp}")
                rp = {"reader_case": dict(c, items=[it], readers=[reader] if reader != "writer" else [])}
                ref = it["ref"]
            found.setdefault(key, []).append((text, rp, ref))
    for key, items in sorted(found.items()):
        refs = []
        for _, _, ref in items:
            if ref not in refs:
                refs.append(ref)
        rep.violation(key, f"{len(items)} read(s), first: {items[0][0]}; references concerned: {json.dumps(refs, ensure_ascii=False)[:500]}", items[0][1])
    return dist


def replay_case(case):
    out = run_reader_case(case)
    if "error" in out:
        print(out["error"])
        return
    for reader, round_, st, o, want in observations(case, out["outs"]):
        what = (f"blob written under {case['items'][st['item']]['ref']!r}" if "item" in st else f"builtin blob {st['control']}")
        print(f"{reader:>12} read {round_ + 1}: {'fetch_blob' if 'fetch' in st else 'dds.load':>10} of the {what}: {o[:120]}   [expected: {want}]" + ("" if o == want else "   <-- VIOLATION"))
