"""Controlled scheduler over the REAL LocalFileStore code (C07): each 'process' is a thread owning its own store object;
every file-system operation (and each half of every write) is a scheduling point (harness/fsgate.py in 'sched' mode).
stdin: {"scenario": {...}, "schedules": [[tid, tid, ...], ...]}  ->  one result per schedule.
A schedule lists which thread performs the next file-system operation; when it is exhausted (or names a finished
thread) the remaining threads run to completion one after the other.

A process obtains its store object either by building it (["init", internal, data]) or by INHERITING the one its parent
built before the processes were started (["inherit", how]): the optional scenario["parent"] program is run (not
scheduled, under the parent's pid) before the processes exist, and at the moment of the "fork" every inheriting process
receives its private image of the parent's store object:
    how = "fork"   copy.deepcopy            (the memory image of a forked child)
    how = "spawn"  pickle round trip         (multiprocessing with the spawn / forkserver start method, Pool arguments)
    how = "self"   the parent's object itself (the parent goes on working next to its children; keeps the parent's pid)
Whatever a store object captured when it was constructed or used by the parent is then common to several processes.

scenario["io"] chooses when the bytes of a Python-level write reach the file: "flushed" (default: at the f.write call, each
half of it a system call) or "buffered" (harness/fsbuf.py: where a real buffered file object performs its os-level
writes - when the buffer overflows, at flush and at close; every os-level write, each half of it, and the os-level close
are the scheduling points, so that a process can be preempted between a rename / symlink / open and the write or close
that follows it).  Readers: ["load", path], ["has", key], ["probe", key] (has_blob and, when it says present,
fetch_blob: what a process does that finds a blob already stored).  The result lists, for every switch between
processes that took place, the operation after which the outgoing process was preempted ("switches")."""
import copy
import json
import os
import pickle
import shutil
import sys
import tempfile
import threading
from collections import OrderedDict

sys.path.insert(0, os.path.dirname(os.path.abspath(__file__)))
import fsgate  # noqa: E402
import fsbuf  # noqa: E402


class Ctl(object):
    def __init__(self, n):
        self.n = n
        self.sems = [threading.Semaphore(0) for _ in range(n)]
        self.state = ["new"] * n          # new | blocked | running | done
        self.cv = threading.Condition()
        self.trace = []
        self.pending = [None] * n         # the operation each blocked thread is about to perform
        self.executed = []                # operations in the order in which they were performed

    # called from worker threads before each fs operation
    def gate(self, who, entry):
        if who is None:
            return
        with self.cv:
            self.state[who] = "blocked"
            self.trace.append([who] + entry[1:3])
            self.pending[who] = [who] + entry[1:-1]          # (fsgate appends the thread to the entry)
            self.cv.notify_all()
        self.sems[who].acquire()
        with self.cv:
            self.state[who] = "running"

    def finished(self, who):
        with self.cv:
            self.state[who] = "done"
            self.cv.notify_all()

    def wait_settled(self, who):
        with self.cv:
            self.cv.wait_for(lambda: self.state[who] in ("blocked", "done"), timeout=20)
            return self.state[who]

    def step(self, who):
        """let thread `who` perform exactly one fs operation (it then blocks at the next one or finishes)"""
        with self.cv:
            if self.state[who] != "blocked":
                return False
            self.state[who] = "running"
            self.executed.append(self.pending[who])
        self.sems[who].release()
        return self.wait_settled(who) is not None

    def switches(self):
        """For every change of the running process: the operation after which the outgoing process was preempted (or with
        which it finished) and the process that went on."""
        ex = self.executed
        return [{"after": a, "then": b[0], "outgoing_finished": not any(e[0] == a[0] for e in ex[i + 1:])}
                for i, (a, b) in enumerate(zip(ex, ex[1:])) if a[0] != b[0]]


PARENT_PID = os.getpid()
PIDS = {}                # simulated process -> pid seen by os.getpid() (see main)


def inherit(base, how):
    """The image of the parent's store object that a process started now works with."""
    if base is None:
        raise ValueError("scenario without a parent store")
    if how == "fork":
        return copy.deepcopy(base)
    if how == "spawn":
        return pickle.loads(pickle.dumps(base))
    if how == "self":
        return base
    raise ValueError(how)


def run_parent(root, prog, values):
    """The parent's program, before any process is started (thread 'None': not scheduled).  Returns its store object."""
    from dds.store import LocalFileStore
    store = None
    for act in prog:
        if act[0] == "init":
            store = LocalFileStore(os.path.join(root, act[1]), os.path.join(root, act[2]))
        elif act[0] == "keep":
            _, key, path = act
            if not store.has_blob(key):
                store.store_blob(key, values[key], None)
            store.sync_paths(OrderedDict([(path, key)]))
            if store.fetch_blob(key) != values[key]:
                raise RuntimeError("parent: keep returned a wrong value")
        elif act[0] == "load":
            store.fetch_blob(store.fetch_paths([act[1]]).get(act[1]))
        else:
            raise ValueError(act[0])
    return store


def worker(ctl, who, root, prog, values, out, inherited=None):
    fsgate.set_thread(who)
    from dds.store import LocalFileStore
    from dds.structures import DDSException
    res = []
    try:
        store = None
        for act in prog:
            a = act[0]
            try:
                if a == "init":
                    store = LocalFileStore(os.path.join(root, act[1]), os.path.join(root, act[2]))
                    res.append("U")
                elif a == "inherit":
                    store = inherited
                    res.append("I")
                elif a == "keep":
                    # what dds does at the store interface for one kept node: probe, (compute,) store, commit, read back
                    _, key, path = act
                    if not store.has_blob(key):
                        store.store_blob(key, values[key], None)
                    store.sync_paths(OrderedDict([(path, key)]))
                    v = store.fetch_blob(key)
                    res.append("V:" + repr(v))
                elif a == "load":
                    k = store.fetch_paths([act[1]]).get(act[1])
                    v = store.fetch_blob(k)
                    res.append("L:" + k + ":" + repr(v))
                elif a == "has":
                    res.append("B1" if store.has_blob(act[1]) else "B0")
                elif a == "probe":
                    # a process that finds the blob already stored uses it: present means complete
                    if store.has_blob(act[1]):
                        res.append("P:" + act[1] + ":" + repr(store.fetch_blob(act[1])))
                    else:
                        res.append("P0")
                else:
                    raise ValueError(a)
            except DDSException:
                res.append("PE:" + act[1] if a == "probe" else "E")
    except BaseException as e:  # noqa: the thread dies with a low-level exception
        res.append("X:" + type(e).__name__ + ":" + str(e)[:80])
    out[who] = res
    ctl.finished(who)


def run_one(scenario, schedule, tear):
    root = tempfile.mkdtemp(prefix="sched_")
    n = len(scenario["procs"])
    ctl = Ctl(n)
    fsgate.install([root], mode="sched", sched=ctl.gate)
    fsgate.STATE["tear"] = tear
    fsbuf.install(buffered=scenario.get("io", "flushed") == "buffered")
    out = [None] * n
    PIDS.clear()
    inherited = [None] * n
    parent_error = None
    try:
        base = run_parent(root, scenario["parent"], scenario["values"]) if scenario.get("parent") else None
        # the "fork": every inheriting process gets its image of the parent's store now, before any process runs
        for i, prog in enumerate(scenario["procs"]):
            hows = [act[1] for act in prog if act[0] == "inherit"]
            if hows:
                inherited[i] = inherit(base, hows[0])
                if hows[0] == "self":
                    PIDS[i] = PARENT_PID
    except BaseException as e:  # noqa: the parent could not even build / use / hand over its store
        parent_error = type(e).__name__ + ":" + str(e)[:80]
    if parent_error is not None:
        fsgate.STATE["mode"] = "off"
        shutil.rmtree(root, ignore_errors=True)
        return {"out": [["X:" + parent_error]] * n, "final": {}, "n_ops": 0, "ops_per_thread": [0] * n, "parent_error": parent_error}
    threads = [threading.Thread(target=worker, args=(ctl, i, root, scenario["procs"][i], scenario["values"], out, inherited[i]), daemon=True)
               for i in range(n)]
    for t in threads:
        t.start()
    for i in range(n):
        ctl.wait_settled(i)
    for who in schedule:
        if ctl.state[who] == "blocked":
            ctl.step(who)
    # run the rest without preemption
    for who in range(n):
        while ctl.state[who] == "blocked":
            ctl.step(who)
    for t in threads:
        t.join(timeout=20)
    fsgate.STATE["mode"] = "off"
    # final state: every path must serve a correct value
    final = {}
    try:
        from dds.store import LocalFileStore
        from dds.structures import DDSException
        for (idir, ddir, paths) in scenario["final"]:
            st = LocalFileStore(os.path.join(root, idir), os.path.join(root, ddir))
            for p in paths:
                try:
                    k = st.fetch_paths([p]).get(p)
                    final[ddir + p] = k + ":" + repr(st.fetch_blob(k))
                except DDSException:
                    final[ddir + p] = "E"
    except BaseException as e:  # noqa
        final["error"] = type(e).__name__ + ":" + str(e)[:80]
    leftovers = []
    shutil.rmtree(root, ignore_errors=True)
    return {"out": out, "final": final, "n_ops": len(ctl.trace), "ops_per_thread": [sum(1 for t in ctl.trace if t[0] == i) for i in range(n)],
            "switches": ctl.switches()}


def main():
    # each simulated process has its own pid (the store derives the names of its temporaries from os.getpid(), and code
    # may treat "other pids" specially)
    real_getpid = os.getpid
    global PARENT_PID
    PARENT_PID = real_getpid()

    def fake_getpid():
        who = getattr(fsgate._tls, "who", None)
        return PARENT_PID if who is None else PIDS.get(who, 700000 + who)
    os.getpid = fake_getpid
    payload = json.load(sys.stdin)
    from dds.codec import codec_registry
    codec_registry()
    res = []
    for sch in payload["schedules"]:
        res.append(run_one(payload["scenario"], sch, payload.get("tear", True)))
    print("@@RESULT@@" + json.dumps(res))


if __name__ == "__main__":
    main()
