"""Controlled scheduler over the REAL LocalFileStore code (C07): each 'process' is a thread owning its own store object;
every file-system operation (and each half of every write) is a scheduling point (harness/fsgate.py in 'sched' mode).
stdin: {"scenario": {...}, "schedules": [[tid, tid, ...], ...]}  ->  one result per schedule.
A schedule lists which thread performs the next file-system operation; when it is exhausted (or names a finished
thread) the remaining threads run to completion one after the other."""
import json
import os
import shutil
import sys
import tempfile
import threading
from collections import OrderedDict

sys.path.insert(0, os.path.dirname(os.path.abspath(__file__)))
import fsgate  # noqa: E402


class Ctl(object):
    def __init__(self, n):
        self.n = n
        self.sems = [threading.Semaphore(0) for _ in range(n)]
        self.state = ["new"] * n          # new | blocked | running | done
        self.cv = threading.Condition()
        self.trace = []

    # called from worker threads before each fs operation
    def gate(self, who, entry):
        if who is None:
            return
        with self.cv:
            self.state[who] = "blocked"
            self.trace.append([who] + entry[1:3])
            self.cv.notify_all()
        self.sems[who].acquire()
        with self.cv:
            self.state[who] = "running"

    def finished(self, who):
        with self.cv:
            self.state[who] = "done"
            self.cv.notify_all()

    def wait_settled(self, who):
        with self.cv:
            self.cv.wait_for(lambda: self.state[who] in ("blocked", "done"), timeout=20)
            return self.state[who]

    def step(self, who):
        """let thread `who` perform exactly one fs operation (it then blocks at the next one or finishes)"""
        with self.cv:
            if self.state[who] != "blocked":
                return False
            self.state[who] = "running"
        self.sems[who].release()
        return self.wait_settled(who) is not None


def worker(ctl, who, root, prog, values, out):
    fsgate.set_thread(who)
    from dds.store import LocalFileStore
    from dds.structures import DDSException
    res = []
    try:
        store = None
        for act in prog:
            a = act[0]
            try:
                if a == "init":
                    store = LocalFileStore(os.path.join(root, act[1]), os.path.join(root, act[2]))
                    res.append("U")
                elif a == "keep":
                    # what dds does at the store interface for one kept node: probe, (compute,) store, commit, read back
                    _, key, path = act
                    if not store.has_blob(key):
                        store.store_blob(key, values[key], None)
                    store.sync_paths(OrderedDict([(path, key)]))
                    v = store.fetch_blob(key)
                    res.append("V:" + repr(v))
                elif a == "load":
                    k = store.fetch_paths([act[1]]).get(act[1])
                    v = store.fetch_blob(k)
                    res.append("L:" + k + ":" + repr(v))
                elif a == "has":
                    res.append("B1" if store.has_blob(act[1]) else "B0")
            except DDSException:
                res.append("E")
    except BaseException as e:  # noqa: the thread dies with a low-level exception
        res.append("X:" + type(e).__name__ + ":" + str(e)[:80])
    out[who] = res
    ctl.finished(who)


def run_one(scenario, schedule, tear):
    root = tempfile.mkdtemp(prefix="sched_")
    n = len(scenario["procs"])
    ctl = Ctl(n)
    fsgate.install([root], mode="sched", sched=ctl.gate)
    fsgate.STATE["tear"] = tear
    out = [None] * n
    threads = [threading.Thread(target=worker, args=(ctl, i, root, scenario["procs"][i], scenario["values"], out), daemon=True) for i in range(n)]
    for t in threads:
        t.start()
    for i in range(n):
        ctl.wait_settled(i)
    for who in schedule:
        if ctl.state[who] == "blocked":
            ctl.step(who)
    # run the rest without preemption
    for who in range(n):
        while ctl.state[who] == "blocked":
            ctl.step(who)
    for t in threads:
        t.join(timeout=20)
    fsgate.STATE["mode"] = "off"
    # final state: every path must serve a correct value
    final = {}
    try:
        from dds.store import LocalFileStore
        from dds.structures import DDSException
        for (idir, ddir, paths) in scenario["final"]:
            st = LocalFileStore(os.path.join(root, idir), os.path.join(root, ddir))
            for p in paths:
                try:
                    k = st.fetch_paths([p]).get(p)
                    final[ddir + p] = k + ":" + repr(st.fetch_blob(k))
                except DDSException:
                    final[ddir + p] = "E"
    except BaseException as e:  # noqa
        final["error"] = type(e).__name__ + ":" + str(e)[:80]
    leftovers = []
    shutil.rmtree(root, ignore_errors=True)
    return {"out": out, "final": final, "n_ops": len(ctl.trace), "ops_per_thread": [sum(1 for t in ctl.trace if t[0] == i) for i in range(n)]}


def main():
    # each simulated process has its own pid (the store derives the names of its temporaries from os.getpid(), and code
    # may treat "other pids" specially)
    real_getpid = os.getpid

    def fake_getpid():
        who = getattr(fsgate._tls, "who", None)
        return real_getpid() if who is None else 700000 + who
    os.getpid = fake_getpid
    payload = json.load(sys.stdin)
    from dds.codec import codec_registry
    codec_registry()
    res = []
    for sch in payload["schedules"]:
        res.append(run_one(payload["scenario"], sch, payload.get("tear", True)))
    print("@@RESULT@@" + json.dumps(res))


if __name__ == "__main__":
    main()
