"""C03, execution environment of an evaluation as a dimension.

One program (fixed source text, fixed arguments, fresh store) is evaluated under environments that differ only by things
that are not program content: the depth of the caller's stack when dds.eval / dds.keep is called, sys.getrecursionlimit(),
a worker thread, a tracer / profiler installed by a debugger or a coverage tool, the source files moved / deleted /
replaced by their .pyc / the project directory renamed after (or before) the modules were imported, the state of linecache,
PYTHONHASHSEED.  The programs are DEEP (a chain of 60-100 helper functions over two modules, linked by plain calls, by
functions passed by name to map / max(key=) / an apply helper / bound to a local alias, and by dds.keep nodes), so that the
analysis itself needs most of the default recursion limit.

Expected results come from the property, not from the implementation: the reference is the evaluation with a roomy
recursion limit from a shallow stack with all sources in place; its value must be the value of the plain execution of the
same text (dds replaced by a pass-through stub).  Every other environment must either hand the SAME path -> signature map
to Store.sync_paths and return the same value, or fail loudly: an exception, no other map synced, no blob stored under a key
that the reference does not assign."""
import copy
import random
import tempfile

import common as C

DRIVER = "drive_c03env.py"
ROOMY = 20000
MENTIONS = ("map", "apply", "assign", "key")
FAMILIES = ("by-name", "mixed", "calls-only", "keeps+load")

STUB = '''_kept = {}


def keep(path, f, *a, **k):
    r = f(*a, **k)
    _kept[path] = r
    return r


def eval(f, *a, **k):
    return f(*a, **k)


def load(path):
    return _kept[path]
'''


def _link_text(kind, nxt, i, a, lit):
    if kind == "call":
        return [f"    return {nxt}(x) + {a}"]
    if kind == "map":
        return [f"    return sum(map({nxt}, [x])) + {a}"]
    if kind == "apply":
        return [f"    return _apply({nxt}, x) + {a}"]
    if kind == "assign":
        return [f"    g = {nxt}", f"    return g(x) + {a}"]
    if kind == "key":
        return [f"    return max([x, x + 1], key={nxt}) + {a}"]
    if kind == "keep":
        return [f'    return dds.keep("/n{i}", {nxt}, {lit}) + x + {a}']
    raise ValueError(kind)


def gen_deep(rng, family, idx, chain=None):
    """-> program spec: the chain f0 .. f(D-1); f0 .. f(dm-1) live in <pkg>/main.py, the rest in <pkg>/helpers.py."""
    D = chain or rng.randint(60, 100)
    dm = rng.randint(D // 3, 2 * D // 3)
    weights = {"by-name": [("call", 84)] + [(m, 4) for m in MENTIONS],          # no kept node below the entry: nothing but the signature of /out shows a lost dependency
               "mixed": [("call", 60)] + [(m, 10) for m in MENTIONS],
               "calls-only": [("call", 1)],
               "keeps+load": [("call", 88)] + [(m, 3) for m in MENTIONS]}[family]
    kinds = [rng.choices([k for k, _ in weights], [w for _, w in weights])[0] for _ in range(D - 1)]
    if family == "by-name":
        kinds[rng.randrange(3)] = rng.choice(MENTIONS)
    if family == "keeps+load" and not any(k in MENTIONS for k in kinds):
        kinds[rng.randrange(D - 1)] = rng.choice(MENTIONS)
    # kept nodes along the chain: a few (each one makes the library analyse the functions below it once more per argument context)
    for i in rng.sample(range(D - 1), {"mixed": rng.randint(0, 2), "keeps+load": rng.randint(3, 5)}.get(family, 0)):
        kinds[i] = "keep"
    links = [{"kind": k, "a": rng.randint(0, 9), "lit": rng.randint(1, 5), "reads": rng.random() < 0.15} for k in kinds]
    return {"pkg": f"vqe{idx}", "family": family, "chain": D, "split": dm, "links": links, "load": family == "keeps+load",
            "K": rng.randint(2, 9), "W": rng.randint(2, 9),
            "style": rng.choice(["eval", "keep"]), "arg": rng.randint(1, 4)}


def render(spec, plain=False):
    """-> {relpath: text}; plain: the same text in the package <pkg>_plain, with dds replaced by the pass-through stub"""
    pkg = spec["pkg"] + ("_plain" if plain else "")
    imp = f"from {pkg} import ddsstub as dds" if plain else "import dds"
    D, dm = spec["chain"], spec["split"]
    name = lambda i: (f"c{i}" if i < dm else f"h{i}")  # noqa

    def funcs(lo, hi, var):
        out = []
        for i in range(hi - 1, lo - 1, -1):      # callees first, like a hand-written module
            out += [f"def {name(i)}(x):"]
            if i == D - 1:
                out += [f"    return x * {var}" + (' + dds.load("/a")' if spec["load"] else "")]
            else:
                ln = spec["links"][i]
                body = _link_text(ln["kind"], name(i + 1), i, ln["a"], ln["lit"])
                if ln["reads"]:
                    body[-1] += f" + {var}"
                out += body
            out += ["", ""]
        return out
    helpers = [imp, "", f"K = {spec['K']}", "", "", "def _apply(f, x):", "    return f(x)", "", ""] + funcs(dm, D, "K")
    main = [imp, f"from {pkg}.helpers import {name(dm)}", "", f"W = {spec['W']}", "", "", "def _apply(f, x):", "    return f(x)", "", "",
            "def base():", "    return 7", "", ""] + funcs(0, dm, "W")
    main += ["def prep():", '    return dds.keep("/a", base)', "", "", "def main():", f'    return dds.keep("/out", c0, {spec["arg"]})', ""]
    files = {f"{pkg}/__init__.py": "", f"{pkg}/helpers.py": "\n".join(helpers), f"{pkg}/main.py": "\n".join(main)}
    if plain:
        files[f"{pkg}/ddsstub.py"] = STUB
    return files


def payload_of(spec, envs, pre_ops=None):
    pkg = spec["pkg"]
    entry = ({"fn": "main", "style": "eval", "args": []} if spec["style"] == "eval"
             else {"fn": "c0", "style": "keep", "path": "/out", "args": [spec["arg"]]})
    plain_entry = {"fn": "main", "args": []}
    if spec["load"]:
        entry["pre"] = "prep"
    return {"files": render(spec), "plain_files": render(spec, plain=True), "accept": [pkg], "module": pkg + ".main",
            "plain_module": pkg + "_plain.main", "entry": entry, "plain_entry": plain_entry, "plain_pre": "prep" if spec["load"] else None,
            "pre_ops": pre_ops or [], "envs": envs}


def dims_of(env):
    d = []
    if env.get("depth"):
        d.append("caller-depth")
    if env.get("reclimit") not in (None, ROOMY):
        d.append("recursion-limit")
    if env.get("thread"):
        d.append("thread")
    if env.get("tracer"):
        d.append("tracer")
    for op in env.get("ops") or []:
        d.append("source-" + op["op"])
    if env.get("linecache") == "cleared":
        d.append("linecache")
    if not d and env.get("reclimit") is None:
        d.append("caller-depth")          # depth 0 under the default limit: the plain script
    return "+".join(d) or "none"


def env_name(env):
    parts = []
    parts.append(f"depth={env.get('depth', 0)}")
    parts.append("limit=" + str(env.get("reclimit") or "default"))
    if env.get("thread"):
        parts.append("thread")
    if env.get("tracer"):
        parts.append(env["tracer"])
    for op in env.get("ops") or []:
        parts.append(f"{op['op']}({op['file']})")
    if env.get("linecache") == "cleared":
        parts.append("linecache-cleared")
    return ",".join(parts)


def make_envs(tier, rng, spec):
    pkg = spec["pkg"]
    hp, mn = f"{pkg}/helpers.py", f"{pkg}/main.py"
    E = [dict(reclimit=ROOMY)]                                            # the reference: index 0
    depths = (0, 50, 100, 200, 400, 800) if tier == "quick" else tuple(range(0, 1000, 25))
    E += [dict(depth=k) for k in depths]
    E += [dict(reclimit=3000), dict(reclimit=3000, depth=2200), dict(reclimit=500), dict(reclimit=350), dict(reclimit=700, depth=150),
          dict(reclimit=ROOMY, depth=3000)]                             # a deep caller with head-room: nothing may change
    E += [dict(thread=True), dict(thread=True, depth=300), dict(thread=True, reclimit=ROOMY)]
    E += [dict(tracer="settrace", reclimit=ROOMY), dict(tracer="setprofile", reclimit=ROOMY), dict(tracer="settrace", depth=150), dict(tracer="setprofile", depth=150)]
    E += [dict(reclimit=ROOMY, ops=[{"op": "gone", "file": hp}]),
          dict(reclimit=ROOMY, ops=[{"op": "gone", "file": hp}], linecache="cleared"),
          dict(reclimit=ROOMY, ops=[{"op": "pyc-only", "file": hp}]),
          dict(reclimit=ROOMY, ops=[{"op": "dir-renamed", "file": pkg}]),
          dict(reclimit=ROOMY, ops=[{"op": "gone", "file": mn}], linecache="cleared"),
          dict(reclimit=ROOMY, linecache="cleared"),
          dict(depth=200, ops=[{"op": "gone", "file": hp}])]
    if tier != "quick":
        for _ in range(20):
            e = {}
            if rng.random() < 0.8:
                e["reclimit"] = rng.choice([300, 400, 600, 800, 1500, 3000, 5000, ROOMY])
            lim = e.get("reclimit") or 1000
            e["depth"] = rng.randrange(0, max(1, lim - 40))
            if rng.random() < 0.3:
                e["thread"] = True
            if rng.random() < 0.3:
                e["tracer"] = rng.choice(["settrace", "setprofile"])
            if rng.random() < 0.4:
                e["ops"] = [rng.choice([{"op": "gone", "file": hp}, {"op": "pyc-only", "file": hp}, {"op": "dir-renamed", "file": pkg},
                                        {"op": "gone", "file": mn}, {"op": "pyc-only", "file": mn}])]
            if rng.random() < 0.3:
                e["linecache"] = "cleared"
            E.append(e)
    for e in E:
        e["name"] = env_name(e)
    return E


def n_programs(tier):
    return 4 if tier == "quick" else 24


def plan(tier, seed):
    """-> list of (spec, [(process name, payload, hashseed)])"""
    rng = random.Random(seed * 7919 + 3)
    n = n_programs(tier)
    out = []
    for i in range(n):
        fam = FAMILIES[i % len(FAMILIES)]
        spec = gen_deep(rng, fam, i)
        envs = make_envs(tier, rng, spec)
        procs = [("sweep", payload_of(spec, envs), "0")]
        short = [copy.deepcopy(envs[0])] + [dict(depth=k) for k in (0, 200)]
        for e in short:
            e["name"] = env_name(e)
        # process-level environments: the helper module is imported from a .pyc without source (a compiled distribution);
        # another hash seed
        procs.append(("helpers-imported-from-pyc", payload_of(spec, copy.deepcopy(short), pre_ops=[{"op": "pyc-only", "file": f"{spec['pkg']}/helpers.py"}]), "0"))
        if tier != "quick" or i % 2 == 0:
            procs.append(("hashseed=random", payload_of(spec, copy.deepcopy(short)), "random"))
        out.append((spec, procs))
    return out


def run_proc(job):
    pname, payload, hashseed = job
    payload = dict(payload, root=tempfile.mkdtemp(prefix="c03env_", dir=C.scratch_dir()))
    try:
        return C.run_driver(DRIVER, payload, hashseed=hashseed, timeout=900)
    except Exception as e:  # noqa
        return {"harness_error": str(e)[-600:]}


def _short(m):
    return {p: s[:12] for p, s in sorted(m.items())} if isinstance(m, dict) else m


def judge(rep, spec, pname, payload, hashseed, res, ref, stats):
    """ref: (synced map, plain value) of the reference environment of the sweep process of this program (None while judging the sweep itself)."""
    tag = f"{spec['pkg']}[{spec['family']},chain={spec['chain']},style={spec['style']}]"

    def rp(env, extra=None):
        es = [payload["envs"][0]] + ([env] if env is not None and env is not payload["envs"][0] else [])
        return {"exec_env": dict({"driver": DRIVER, "payload": dict(payload, envs=es), "hashseed": hashseed, "process": pname, "reference": ref}, **(extra or {}))}
    if "harness_error" in res:
        rep.violation("harness-error:c03-exec-env", f"{tag} process {pname}: driver failed: {res['harness_error'][-300:]}", rp(None), no_input=True)
        return None
    if res.get("import_error"):
        # a process-level environment in which the modules cannot even be imported: loud
        stats["loud"] += 1
        rep.case(f"exec-env:{spec['pkg']}:{pname}:import", nontrivial=False)
        return None
    plain = res["plain"]
    envs = payload["envs"]
    own = res["envs"][0]
    if ref is None:
        # the reference itself: must succeed and compute what the plain program computes
        if own["error"] is not None or len(own["synced"]) != 1 or plain.startswith("exc:"):
            rep.violation("harness-error:c03-exec-env", f"{tag}: the reference environment ({envs[0]['name']}) did not evaluate: error={own['error']} "
                          f"syncs={len(own['synced'])} plain={plain[:80]}", rp(None), no_input=True)
            return None
        if own["value"] != plain:
            rep.violation("exec-env:value-differs-from-plain-execution", f"{tag}: dds returns {own['value']} in the reference environment, the plain execution "
                          f"of the same text returns {plain}", rp(None))
        ref = (own["synced"][0], plain)
    ref_map, ref_val = ref
    allowed_keys = set(ref_map.values())
    for env, o in zip(envs, res["envs"]):
        dims = dims_of(env)
        if pname != "sweep":
            dims = pname.split("=")[0] + ("+" + dims if dims != "none" else "")
        where = f"{tag} process={pname} environment [{env['name']}]"
        stats["envs"][dims] = stats["envs"].get(dims, 0) + 1
        if o.get("ctx_left"):
            stats["ctx_left"] += 1
        ok = o["error"] is None
        rep.case(f"exec-env:{spec['pkg']}:{pname}:{env['name']}", nontrivial=ok and bool(o["synced"]))
        stats["agree" if ok else "loud"] += 1
        bad_maps = [m for m in o["synced"] if m != ref_map]
        if bad_maps:
            diff = sorted(p for p in set(ref_map) | set(bad_maps[0]) if ref_map.get(p) != bad_maps[0].get(p))
            rep.violation("env-dependent:exec-env:" + dims,
                          f"{where}: " + ("the evaluation succeeds" if ok else f"the evaluation fails ({o['error'][:60]})") +
                          f" and hands other signatures to the store than the reference environment [{envs[0]['name'] if pname == 'sweep' else 'sweep: ' + 'depth=0,limit=20000'}] "
                          f"for the same text: {len(diff)} path(s) differ, e.g. {diff[0]} -> {str(bad_maps[0].get(diff[0]))[:12]} instead of {str(ref_map.get(diff[0]))[:12]}",
                          rp(env, {"observed": o, "differing_paths": diff}))
            continue
        stray = [k for k in o["stored"] if k not in allowed_keys]
        if stray:
            rep.violation("env-dependent:exec-env-blob:" + dims,
                          f"{where}: a blob is stored under the key {stray[0][:12]}, which the reference environment assigns to no path "
                          f"(outcome: {o['error'] or 'success'})", rp(env, {"observed": o, "stray_keys": stray}))
            continue
        if ok and not o["synced"]:
            rep.violation("env-dependent:exec-env-nosync:" + dims, f"{where}: the evaluation returns {o['value']} without committing any path "
                          f"(the reference commits {len(ref_map)})", rp(env, {"observed": o}))
        elif ok and o["value"] != ref_val:
            rep.violation("env-dependent:exec-env-value:" + dims, f"{where}: same signatures but the value is {o['value']}, the plain execution gives {ref_val}",
                          rp(env, {"observed": o}))
    return ref


def start(tier, seed, ex):
    """submits the driver processes to the executor of c03.run (they run next to its other jobs)"""
    plans = plan(tier, seed)
    jobs = [(spec, p) for spec, procs in plans for p in procs]
    return plans, jobs, [ex.submit(run_proc, p) for _, p in jobs]


def finish(rep, started):
    """judges the outcomes -> the input_distribution entry"""
    plans, jobs, futs = started
    results = [f.result() for f in futs]
    stats = {"programs": len(plans), "processes": len(jobs), "envs": {}, "agree": 0, "loud": 0, "ctx_left": 0,
             "families": {}, "link_kinds": {}, "chain_lengths": [spec["chain"] for spec, _ in plans]}
    refs = {}
    for (spec, (pname, payload, hs)), res in zip(jobs, results):
        if pname == "sweep":
            stats["families"][spec["family"]] = stats["families"].get(spec["family"], 0) + 1
            for ln in spec["links"]:
                stats["link_kinds"][ln["kind"]] = stats["link_kinds"].get(ln["kind"], 0) + 1
            refs[spec["pkg"]] = judge(rep, spec, pname, payload, hs, res, None, stats)
        elif refs.get(spec["pkg"]) is not None:
            judge(rep, spec, pname, payload, hs, res, refs[spec["pkg"]], stats)
    stats["evaluations_same_signatures"] = stats.pop("agree")
    stats["evaluations_failing_loudly"] = stats.pop("loud")
    stats["evaluation_context_left_set_after_failure"] = stats.pop("ctx_left")
    return stats


def replay(r):
    import json
    x = r["exec_env"]
    payload = dict(x["payload"], root=tempfile.mkdtemp(prefix="c03env_replay_"))
    res = C.run_driver(x["driver"], payload, hashseed=x.get("hashseed", "0"), timeout=900)
    print(json.dumps({"plain": res.get("plain"), "import_error": res.get("import_error"),
                      "envs": [dict(o, synced=[_short(m) for m in o["synced"]], stored=[k[:12] for k in o["stored"]]) for o in res.get("envs", [])]}, indent=1))
    ref = x.get("reference")
    if ref is None and res.get("envs"):
        ref = (res["envs"][0]["synced"][0] if res["envs"][0]["synced"] else None, res.get("plain"))
    bad = False
    for o in res.get("envs", []):
        if any(m != ref[0] for m in o["synced"]) or any(k not in set(ref[0].values()) for k in o["stored"]) or \
                (o["error"] is None and (not o["synced"] or o["value"] != ref[1])):
            bad = True
    print("REPRODUCED" if bad else "not reproduced")
    return 1 if bad else 0
