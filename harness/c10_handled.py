"""C10, handled-failure dimension: the failure of a kept function is dealt with by the USER code inside the evaluation.
The kept function f_x fails for a reason that lives outside the code dds sees (its first n calls fail: a transient
failure; or every call does) and the function that asked for it
  * retries in a loop (k attempts; gives up with a default value or re-raises the last exception), in the accepted function
    or in a helper of a module that is not accepted,
  * replaces the value by a default (try / except, contextlib.suppress),
  * falls back to another kept function, or asks again from inside the except block,
  * asks for the same path again at a second call site further down (guarded first site, unguarded second one),
  * only cleans up (try / finally: the control, the exception leaves the evaluation),
  * runs the two requests on two threads: one after the other (the first fails on a worker thread, the second asks on
    another worker thread or on the caller), or overlapping (the second thread asks while the first is still inside the
    failing function);
the handler sits in the evaluated function, in a plain function below it or in a kept function (whose value - computed from
the retried / default / fallback value - is then stored), the failing function may have waited for a kept sub-step that
completed, kept siblings run before / after, every request may be made from the caller or from a worker thread.
What the property demands: a failure is never cached, not even for the rest of the evaluation - the exception object the
function raised is the one the handler sees, every later request of the same function really calls it again and yields
its real value (never None, never the earlier exception), nothing is stored for it until it completes and then its value
is, the functions above it store the values plain execution computes; when the handler gives up, the evaluation is a
failed one (same object out of dds.eval, no commit, paths as before); afterwards dds is usable: the same evaluation again,
another pipeline, and the evaluations after the cause is gone return / execute / store / make loadable what the reference
does.  The reference is the execution of the same files without the library under the semantics the property states: keep =
call, a result that completed is reused, a failure is not, paths become loadable when the evaluation returns
(harness/drive_c10_handled.py)."""
import concurrent.futures as cf
import json
import os
import random
import shutil
import tempfile

import common as C

LOGMOD = "vhlog"
KINDS = ["Exception", "ValueError", "KeyboardInterrupt", "SystemExit", "BaseException"]
CATCH = {"Exception": ["Exception", "BaseException"], "ValueError": ["ValueError", "Exception"], "KeyboardInterrupt": ["KeyboardInterrupt", "BaseException"],
         "SystemExit": ["SystemExit", "BaseException"], "BaseException": ["BaseException"]}
HANDLERS = ["retry", "retry-reraise", "helper-retry", "default", "suppress", "fallback", "retry-in-handler", "two-sites", "finally", "overlap"]
SITE_PLACES = ["caller", "caller", "thread", "submit"]
HANDLER_IN = ["root", "plain", "kept"]
STORES = ["local", "local", "local+lru", "memory"]
NFAIL = [1, 1, 2, -1, -1]          # the first n calls fail (transient) / every call fails (-1)

LOGMOD_SRC = '''"""Not accepted by dds: execution log, the cause of the failure (outside the code dds sees), what the handlers saw, ways of
running a function on another thread."""
import threading
import time
from concurrent.futures import ThreadPoolExecutor

LOG = []
STORE_THREADS = []
RAISED = []          # [tag, exception object] for every exception a generated function raised during the current action
FAIL = {}            # tag -> number of the next calls of the function that fail (-1: every call)
HOLD = set()         # tags whose next failing call waits, before it raises, until a second thread announces itself
KIND = "ValueError"
_LOCK = threading.Lock()
ENTERED = threading.Event()
ARRIVED = threading.Event()
CLASSES = {"Exception": Exception, "ValueError": ValueError, "KeyboardInterrupt": KeyboardInterrupt, "SystemExit": SystemExit,
           "BaseException": BaseException}


def log(tag):
    LOG.append([tag, threading.get_ident()])


def arm(fail, hold):
    global FAIL, HOLD
    FAIL, HOLD = dict(fail), set(hold)
    if hold:
        ENTERED.clear()
        ARRIVED.clear()


def check(tag):
    with _LOCK:
        n = FAIL.get(tag, 0)
        if n == 0:
            return
        if n > 0:
            FAIL[tag] = n - 1
        held = tag in HOLD
        HOLD.discard(tag)
    if held:
        ENTERED.set()
        ARRIVED.wait(3.0)
        time.sleep(0.1)
    e = CLASSES[KIND]("boom-" + tag)
    with _LOCK:
        RAISED.append([tag, e])
        log(tag + ":raise")
    raise e


def mine(e):
    return any(x is e for _t, x in RAISED)


def caught(e, site):
    """a user handler saw e: its class, and whether it is the object the function raised last / earlier / not at all"""
    with _LOCK:
        idx = [i for i, (_t, x) in enumerate(RAISED) if x is e]
        what = "not-an-object-the-function-raised" if not idx else ("the-object-raised-as-number-%d" % (idx[0] + 1))
        log("caught@" + site + ":" + type(e).__name__ + ":" + what)


def in_thread(g):
    box = {}

    def w():
        try:
            box["r"] = g()
        except BaseException as e:  # noqa
            box["e"] = e
    t = threading.Thread(target=w, name="c10h-thread")
    t.start()
    t.join()
    if "e" in box:
        raise box["e"]
    return box["r"]


def submit(g):
    with ThreadPoolExecutor(max_workers=1) as pool:
        return pool.submit(g).result()


def retry(g, k):
    """a retry helper of a library: k attempts, then the last error"""
    last = None
    for _i in range(k):
        try:
            return g()
        except BaseException as e:  # noqa
            if not mine(e):
                raise
            caught(e, "helper-retry")
            last = e
    raise last


def attempt(g, site):
    try:
        return g()
    except BaseException as e:  # noqa
        if not mine(e):
            raise
        caught(e, site)
        return ["failed", site]


def attempt_announced(g, site):
    ARRIVED.set()
    return attempt(g, site)


def wait_inside():
    ENTERED.wait(5.0)


def quiesce():
    for t in threading.enumerate():
        if t.name.startswith("c10h-") and t is not threading.current_thread():
            t.join(10)
'''


# ----------------------------------------------------------------------------- generated pipelines


def gen_program(rng, idx, handler):
    style = rng.choice(["keep", "keep", "data_function"])
    prog = {"pkg": f"hpk{idx}", "handler": handler, "attempts": rng.choice([2, 3]), "handler_in": rng.choice(HANDLER_IN),
            "root_kept": rng.random() < 0.4, "root_path": f"/hh{idx}/root", "h_path": f"/hh{idx}/h", "style": style,
            "inline": style == "keep" and rng.random() < 0.5, "x_path": rng.choice([f"/hh{idx}/x", f"/hh{idx}/d_x/out", f"/x{idx}"]),
            "inner": rng.random() < 0.35, "in_path": f"/hh{idx}/x_in", "y_path": f"/hh{idx}/y", "z_path": f"/z{idx}",
            "sib_before": rng.random() < 0.4, "sib_after": rng.random() < 0.4, "y_style": rng.choice(["keep", "data_function"]),
            "site1": rng.choice(SITE_PLACES), "site2": rng.choice(SITE_PLACES),
            "vals": {v: rng.randint(1, 9) for v in ("V_x", "V_y", "V_z", "V_h", "V_root", "W_x")}}
    if prog["site1"] != "caller" or prog["site2"] != "caller":
        prog["inline"] = False          # (a request made on another thread goes through the keeper function)
    return prog


def has_y(prog):
    return prog["handler"] == "fallback" or prog["sib_before"]


def leaf(prog, tag):
    """Name of the function whose result is kept under the path of the step."""
    style = {"x": prog["style"], "y": prog["y_style"], "z": "keep", "in": "keep", "h": "keep"}[tag]
    return ("f_" if style == "keep" else "k_") + tag


def all_paths(prog):
    ps = [prog["x_path"]] + ([prog["in_path"]] if prog["inner"] else []) + ([prog["y_path"]] if has_y(prog) else []) + \
         ([prog["z_path"]] if prog["sib_after"] else []) + ([prog["h_path"]] if prog["handler_in"] == "kept" else [])
    return ps + ([prog["root_path"]] if prog["root_kept"] else [])


def site(prog, which):
    """The expression of a request of the failing function at the first / second call site."""
    place = prog["site" + str(which)]
    if place == "caller":
        return f"dds.keep({prog['x_path']!r}, f_x)" if prog["inline"] else "k_x()"
    return f"{LOGMOD}.{'in_thread' if place == 'thread' else 'submit'}(k_x)"


def handler_lines(prog, C_):
    """Statements that bind r in the function holding the handler."""
    h, K, E1, E2 = prog["handler"], prog["attempts"], site(prog, 1), site(prog, 2)
    if h == "retry":
        return ["r = ['gave-up']", f"for _i in range({K}):", "    try:", f"        r = {E1}", "        break", f"    except {C_} as e:",
                f"        {LOGMOD}.caught(e, 'retry')"]
    if h == "retry-reraise":
        return ["r = None", "last = None", f"for _i in range({K}):", "    try:", f"        r = {E1}", "        last = None", "        break",
                f"    except {C_} as e:", f"        {LOGMOD}.caught(e, 'retry')", "        last = e", "if last is not None:", "    raise last"]
    if h == "helper-retry":
        return [f"r = {LOGMOD}.retry(k_x, {K})"]
    if h == "default":
        return ["try:", f"    r = {E1}", f"except {C_} as e:", f"    {LOGMOD}.caught(e, 'default')", "    r = ['dflt']"]
    if h == "suppress":
        return ["r = ['dflt']", f"with contextlib.suppress({C_}):", f"    r = {E1}"]
    if h == "fallback":
        return ["try:", f"    r = {E1}", f"except {C_} as e:", f"    {LOGMOD}.caught(e, 'fallback')", "    r = k_y()"]
    if h == "retry-in-handler":
        return ["try:", f"    r = {E1}", f"except {C_} as e:", f"    {LOGMOD}.caught(e, 'first-site')", f"    r = {E2}"]
    if h == "two-sites":
        return ["try:", f"    r1 = {E1}", f"except {C_} as e:", f"    {LOGMOD}.caught(e, 'first-site')", "    r1 = ['dflt']", f"r = [r1, {E2}]"]
    if h == "finally":
        return ["try:", f"    r = {E1}", "finally:", f"    {LOGMOD}.log('cleanup')"]
    if h == "overlap":
        return ["with ThreadPoolExecutor(max_workers=2) as pool:", f"    fa = pool.submit({LOGMOD}.attempt, k_x, 'thread-A')", f"    {LOGMOD}.wait_inside()",
                f"    fb = pool.submit({LOGMOD}.attempt_announced, k_x, 'thread-B')", "    r = [fa.result(), fb.result()]"]
    raise ValueError(h)


def source(prog, catch):
    """The module of the pipeline (its text does not depend on whether, or how often, f_x fails)."""
    def kept(name_leaf, name_keeper, path, style, body):
        if style == "data_function":
            return ["", "", f"@dds.data_function({path!r})", f"def {name_keeper}():"] + body
        return ["", "", f"def {name_leaf}():"] + body + ["", "", f"def {name_keeper}():", f"    return dds.keep({path!r}, {name_leaf})"]

    def simple(tag, base, var):
        return [f"    {LOGMOD}.log({tag!r})", f"    {LOGMOD}.check({tag!r})", f"    r = [{tag!r}, {base} + {var}]", f"    {LOGMOD}.log({tag + ':done'!r})", "    return r"]

    L = ["import contextlib", "import dds", "import threading", "from concurrent.futures import ThreadPoolExecutor", f"import {LOGMOD}", ""]
    L += [f"{v} = {val}" for v, val in sorted(prog["vals"].items())]
    L += ["", "", "def idle():", "    return None"]
    if prog["inner"]:
        L += kept("f_in", "k_in", prog["in_path"], "keep", simple("in", 5, "W_x"))
    body = [f"    {LOGMOD}.log('x')"] + (["    i = k_in()"] if prog["inner"] else [])
    # (the function fails after what it waits for has completed)
    body += [f"    {LOGMOD}.check('x')", "    r = ['x', 10 + V_x" + (" + i[1]" if prog["inner"] else "") + "]", f"    {LOGMOD}.log('x:done')", "    return r"]
    L += kept("f_x", "k_x", prog["x_path"], prog["style"], body)
    if has_y(prog):
        L += kept("f_y", "k_y", prog["y_path"], prog["y_style"], simple("y", 20, "V_y"))
    if prog["sib_after"]:
        L += kept("f_z", "k_z", prog["z_path"], "keep", simple("z", 30, "V_z"))
    hbody = (["    a = k_y()"] if prog["sib_before"] else []) + ["    " + s for s in handler_lines(prog, catch)] + (["    b = k_z()"] if prog["sib_after"] else [])
    hval = "r" + (", a" if prog["sib_before"] else "") + (", b" if prog["sib_after"] else "")
    if prog["handler_in"] == "root":
        L += ["", "", "def root():", f"    {LOGMOD}.log('root')"] + hbody + [f"    res = ['root', V_root, {hval}]", f"    {LOGMOD}.log('root:done')", "    return res"]
    else:
        body = [f"    {LOGMOD}.log('h')"] + hbody + [f"    res = ['h', V_h, {hval}]", f"    {LOGMOD}.log('h:done')", "    return res"]
        if prog["handler_in"] == "kept":
            L += kept("f_h", "k_h", prog["h_path"], "keep", body)
        else:
            L += ["", "", "def k_h():"] + body
        L += ["", "", "def root():", f"    {LOGMOD}.log('root')", "    res = ['root', V_root, k_h()]", f"    {LOGMOD}.log('root:done')", "    return res"]
    if prog["root_kept"]:
        L += ["", "", "def main():", f"    return dds.keep({prog['root_path']!r}, root)"]
    return "\n".join(L) + "\n"


def describe(pl):
    prog = pl["prog"]
    h = prog["handler"]
    how = {"retry": f"a retry loop of {prog['attempts']} attempts that gives up with a default value", "retry-reraise": f"a retry loop of {prog['attempts']} attempts that re-raises the last exception",
           "helper-retry": f"the retry helper of a module that is not accepted ({prog['attempts']} attempts, then the last exception)",
           "default": "try / except with a default value", "suppress": "contextlib.suppress with a default value", "fallback": "try / except falling back to another kept function",
           "retry-in-handler": "try / except asking again from inside the except block", "two-sites": "a guarded call site (default value) followed by a second, unguarded call site of the same path",
           "finally": "try / finally only (control)", "overlap": "two worker threads asking for it at the same time (the second arrives while the first is inside the failing function), each catching its own failure"}[h]
    sites = "" if h in ("overlap", "helper-retry") else f", first request made from {prog['site1']}" + (f", second from {prog['site2']}" if h in ("retry-in-handler", "two-sites") else "")
    n = pl["nfail"]
    return (f"kept function {leaf(prog, 'x')} (path {prog['x_path']}, {'dds.keep written at the call site' if prog['inline'] else prog['style']}"
            f"{', waits for a kept sub-step that completes' if prog['inner'] else ''}) raises {pl['kind']} "
            f"{'at every call' if n < 0 else 'at its first call' if n == 1 else f'at its first {n} calls'}; the caller handles it with {how} (catching {pl['catch']}){sites}; "
            f"handler in {'the evaluated function' if prog['handler_in'] == 'root' else 'a plain function below it' if prog['handler_in'] == 'plain' else 'a kept function'}"
            f"{', kept root' if prog['root_kept'] else ''}{', kept sibling before' if prog['sib_before'] else ''}{', kept sibling after' if prog['sib_after'] else ''}; "
            f"dds.eval called from {'the main thread' if pl['caller'] == 'main' else 'a thread that is not the main thread'}, store {pl['store']}")


def write_package(prog, root, src):
    shutil.rmtree(root, ignore_errors=True)
    os.makedirs(os.path.join(root, prog["pkg"]))
    open(os.path.join(root, prog["pkg"], "__init__.py"), "w").close()
    with open(os.path.join(root, prog["pkg"], "pipe.py"), "w") as f:
        f.write(src)
    with open(os.path.join(root, LOGMOD + ".py"), "w") as f:
        f.write(LOGMOD_SRC)


# ----------------------------------------------------------------------------- histories


def plan(seed, idx, handler):
    rng = random.Random(seed)
    prog = gen_program(rng, idx, handler)
    kind = rng.choice(KINDS)
    return {"seed": seed, "prog": prog, "kind": kind, "catch": rng.choice(CATCH[kind]), "nfail": rng.choice(NFAIL), "store": rng.choice(STORES),
            "caller": rng.choice(["main", "main", "thread"]), "rearm": rng.random() < 0.3}


def history(pl):
    """One process: the cause is armed; evaluation, loads, (the cause armed again,) the same evaluation again, another pipeline,
    the cause removed, the evaluation twice, loads."""
    prog = pl["prog"]
    entry = "main" if prog["root_kept"] else "root"

    def full(label):
        return {"a": "call", "fn": entry, "style": "eval", "caller": pl["caller"], "label": label}
    acts = [{"a": "loads", "label": "loads0"}, full("eval1"), {"a": "loads", "label": "loads1"}]
    if pl["rearm"]:
        acts.append({"a": "arm", "fail": {"x": pl["nfail"]}, "label": "rearm"})
    acts.append(full("eval2"))
    other = "y" if has_y(prog) else "z" if prog["sib_after"] else None
    if other:
        style = "direct" if other == "y" and prog["y_style"] == "data_function" else "eval"
        acts.append({"a": "call", "fn": "k_" + other, "style": style, "caller": "main", "label": "other"})
    acts += [{"a": "arm", "fail": {}, "label": "repair"}, full("eval3"), full("eval4"), {"a": "loads", "label": "loads_end"}]
    return acts


def run_history(pl, nodds=False):
    root = tempfile.mkdtemp(prefix="c10h_", dir=C.scratch_dir())
    try:
        prog = pl["prog"]
        store = {"kind": pl["store"], "internal_dir": os.path.join(root, "internal"), "data_dir": os.path.join(root, "data"), "cap": 16}
        write_package(prog, os.path.join(root, "src"), source(prog, pl["catch"]))
        acts = history(pl)
        payload = {"root": os.path.join(root, "src"), "pkg": prog["pkg"], "store": store, "actions": acts, "nodds": nodds, "paths": all_paths(prog),
                   "kind": pl["kind"], "fail": {"x": pl["nfail"]}, "hold": ["x"] if prog["handler"] == "overlap" else []}
        out = C.run_driver("drive_c10_handled.py", payload, timeout=300)
        return {a["label"]: o for a, o in zip(acts, out)}
    finally:
        shutil.rmtree(root, ignore_errors=True)


def run_all(plans):
    """The history under dds (M) and under the reference (R) for every plan, in parallel."""
    tasks = [(pl, k) for pl in plans for k in ("M", "R")]

    def one(t):
        pl, k = t
        try:
            return run_history(pl, nodds=(k == "R"))
        except Exception as e:  # noqa
            return {"error": str(e)[-1500:]}
    with cf.ThreadPoolExecutor(max_workers=C.NPROC) as ex:
        outs = list(ex.map(one, tasks))
    results = []
    for i in range(len(plans)):
        res = dict(zip(("M", "R"), outs[2 * i: 2 * i + 2]))
        errs = [f"{k}: {r['error']}" for k, r in res.items() if "error" in r]
        results.append({"error": "\n".join(errs)[-1500:]} if errs else res)
    return results


def tags(rec, racy):
    """The execution log: what ran and what the handlers saw, in order (as a multiset, and without the order of the raised
    objects, when two threads run at the same time)."""
    ts = [t for t, _ in rec["log"]]
    return sorted(t.split(":the-object-raised-as-number-")[0] + (":an-object-the-function-raised" if ":the-object-raised-as-number-" in t else "") for t in ts) if racy else ts


def calls_of(rec, tag):
    return sum(1 for t, _ in rec["log"] if t == tag)


def put_tags(rec):
    return [bytes.fromhex(p.split("(s", 1)[1].split(",")[0].split(")")[0]).decode() if p.startswith("L(s") else "?" for p in rec["puts"]]


def expected_first(pl):
    """From the plan alone: how often f_x is called in the first evaluation and whether the evaluation fails."""
    h, n, K = pl["prog"]["handler"], pl["nfail"], pl["prog"]["attempts"]
    inf = 10 ** 6 if n < 0 else n
    if h in ("retry", "retry-reraise", "helper-retry"):
        return min(inf + 1, K), inf >= K and h != "retry"
    if h in ("default", "suppress", "fallback"):
        return 1, False
    if h in ("retry-in-handler", "two-sites"):
        return 2, inf >= 2
    if h == "finally":
        return 1, True
    return 2, False


def check(pl, res):
    """The violations of one plan: list of (key, what, label of the action)."""
    v = []
    M, R = res["M"], res["R"]
    prog = pl["prog"]
    racy = prog["handler"] == "overlap"
    scen = describe(pl)
    ncalls, fails = expected_first(pl)
    if calls_of(R["eval1"], "x") != ncalls or R["eval1"]["out"].startswith("exc:") != fails or (fails and R["eval1"]["out"] != f"exc:{pl['kind']}:same-object:x"):
        raise RuntimeError(f"the reference run gives {R['eval1']['out']} with {calls_of(R['eval1'], 'x')} call(s) of f_x; the scenario demands {ncalls} call(s), "
                           f"{'a failed' if fails else 'a successful'} evaluation: {scen}")
    names = {"eval1": "first evaluation", "eval2": "the same evaluation again" + (" (cause armed again)" if pl["rearm"] else ""), "other": "another kept function evaluated on its own",
             "eval3": "cause removed, first evaluation", "eval4": "cause removed, second evaluation"}
    for lab in ("eval1", "eval2", "other", "eval3", "eval4"):
        if lab not in M:
            continue
        m, r = M[lab], R[lab]
        where = f"{scen}; {names[lab]}"
        sfx = "" if lab in ("eval1", "eval2") else ":later"
        if m["out"] != r["out"]:
            key = "handled:none-instead-of-value" if m["out"].startswith("ok:") and r["out"].startswith("ok:") and m["out"].count("N") > r["out"].count("N") else \
                "handled:wrong-exception" if r["out"].startswith("exc:") else "handled:wrong-result"
            v.append((key + sfx, f"{where}: dds.eval gives {m['out'][:110]}; plain execution (keep = call, completed results reused) gives {r['out'][:110]}", lab))
        # overlapping threads: both may find no blob yet and both call the function (dds promises no de-duplication of concurrent
        # requests), or one may finish first and the other be served: how often the function runs is not determined
        same_log = (set(tags(m, racy)) == set(tags(r, racy))) if racy else (tags(m, racy) == tags(r, racy))
        if not same_log:
            nx = (calls_of(m, "x"), calls_of(r, "x"))
            key = "handled:failure-cached-within-evaluation" if nx[0] < nx[1] else "handled:handler-sees-another-exception" if nx[0] == nx[1] and \
                [t for t in tags(m, racy) if not t.startswith("caught@")] == [t for t in tags(r, racy) if not t.startswith("caught@")] else "handled:executes-differently"
            v.append((key + sfx, f"{where}: the failing function was called {nx[0]} time(s), plain execution calls it {nx[1]} time(s); execution log {tags(m, racy)}, "
                      f"plain execution {tags(r, racy)}", lab))
        if (set(m["puts"]) != set(r["puts"])) if racy else (m["puts"] != r["puts"]):
            v.append(("handled:stores-differently" + sfx, f"{where}: blobs stored for {put_tags(m)} with values {m['puts']}; the functions that complete for the first time in plain "
                      f"execution: {put_tags(r)} with values {r['puts']}", lab))
        incomplete = [t for t in put_tags(m) if t != "?" and not any(x == t + ":done" for x, _ in m["log"])]
        if incomplete:
            v.append(("handled:blob-of-failed-node" + sfx, f"{where}: blobs were stored for {incomplete}, which did not complete in this evaluation", lab))
        if m["out"].startswith(("exc:", "dds:")):
            moved = sorted(p for p in set(m["paths_after"]) | set(m["paths_before"]) if m["paths_after"].get(p) != m["paths_before"].get(p))
            raw_moved = sorted(x for x in (m["raw_after"] or []) + (m["raw_before"] or []) if x not in (m["raw_before"] or []) or x not in (m["raw_after"] or []))
            if [x for x in m["rec"] if x[0] == "sync"] or moved or raw_moved:
                v.append(("handled:commit-after-failure" + sfx, f"{where}: the evaluation ended with {m['out'][:60]} but paths were committed: {moved}; links of the data "
                          f"directory that changed: {raw_moved}", lab))
        if m.get("in_eval"):
            v.append(("handled:left-in-eval" + sfx, f"{where}: afterwards dds still refuses a new evaluation: {m['in_eval']}", lab))
    for lab in ("loads1", "loads_end"):
        if M[lab]["loads"] != R[lab]["loads"]:
            v.append(("handled:loads-differ" + ("" if lab == "loads1" else ":later"), f"{scen}; dds.load of {all_paths(prog)} "
                      f"{'after the first evaluation' if lab == 'loads1' else 'at the end of the history'} gives {M[lab]['loads']}; plain execution (paths loadable once the "
                      f"evaluation that kept them returned) {R[lab]['loads']}", lab))
    return v


def dangling(res):
    """Committed paths whose blob does not exist after a successful evaluation in which the function of the path failed and the
    user handled it (dds.load refuses such a path with a DDSException, as it refuses a path never kept: counted, not judged)."""
    n = 0
    for lab in ("eval1", "eval2"):
        m = res["M"][lab]
        if m["out"].startswith("ok:") and m["blobs_after"] is not None:
            n += sum(1 for p, k in m["paths_after"].items() if k not in m["blobs_after"])
    return n


def plans_for(tier, seed, proof_ok):
    n = 14 if tier == "quick" and proof_ok else 120
    rng = random.Random(seed * 7919 + 11)
    hs = []
    while len(hs) < n:
        block = list(HANDLERS)
        rng.shuffle(block)
        hs += block
    return [plan(seed * 1000 + 400 + i, i, hs[i]) for i in range(n)]


def run(rep, tier, seed, proof_ok):
    plans = plans_for(tier, seed, proof_ok)
    results = run_all(plans)
    dist = {"histories": len(plans), "by_handler": {}, "by_failures": {}, "by_exception_class": {}, "by_store": {}, "by_handler_in": {}, "by_request_place": {},
            "handler_catches_a_base_class": 0, "failing_function_waits_for_a_completed_kept_sub_step": 0, "kept_root": 0, "cause_armed_again_before_the_second_evaluation": 0,
            "first_evaluation_fails_after_handling": 0, "first_evaluation_succeeds_after_handling": 0, "failing_function_requested_again_in_the_same_evaluation": 0,
            "recovered_by_a_later_request_in_the_same_evaluation": 0, "second_request_on_another_thread": 0,
            "committed_paths_without_blob_after_a_handled_failure (dds.load refuses them)": 0}
    for pl, res in zip(plans, results):
        prog = pl["prog"]
        key = f"handled:{pl['seed']}:{prog['handler']}:{pl['nfail']}:{pl['kind']}:{pl['catch']}:{prog['handler_in']}:{prog['site1']}:{prog['site2']}:{pl['store']}"
        if "error" in res:
            rep.case(key, nontrivial=False)
            rep.violation("harness-error:c10-handled", "history with a handled failure could not be run: " + res["error"][-300:], {"hplan": pl}, no_input=True)
            continue
        try:
            viol = check(pl, res)
        except RuntimeError as e:
            rep.case(key, nontrivial=False)
            rep.violation("harness-error:c10-handled", str(e)[-400:], {"hplan": pl}, no_input=True)
            continue
        r1 = res["R"]["eval1"]
        again = calls_of(r1, "x") >= 2
        rep.case(key, nontrivial=again or any(t.startswith("caught@") for t, _ in r1["log"]))
        for k, val in (("by_handler", prog["handler"]), ("by_failures", "every call" if pl["nfail"] < 0 else f"first {pl['nfail']}"), ("by_exception_class", pl["kind"]),
                       ("by_store", pl["store"]), ("by_handler_in", prog["handler_in"])):
            dist[k][val] = dist[k].get(val, 0) + 1
        for p in ([] if prog["handler"] in ("overlap", "helper-retry") else [prog["site1"]] + ([prog["site2"]] if prog["handler"] in ("retry-in-handler", "two-sites") else [])):
            dist["by_request_place"][p] = dist["by_request_place"].get(p, 0) + 1
        dist["handler_catches_a_base_class"] += pl["catch"] != pl["kind"]
        dist["failing_function_waits_for_a_completed_kept_sub_step"] += prog["inner"]
        dist["kept_root"] += prog["root_kept"]
        dist["cause_armed_again_before_the_second_evaluation"] += pl["rearm"]
        dist["first_evaluation_fails_after_handling"] += r1["out"].startswith("exc:")
        dist["first_evaluation_succeeds_after_handling"] += r1["out"].startswith("ok:")
        dist["failing_function_requested_again_in_the_same_evaluation"] += again
        dist["recovered_by_a_later_request_in_the_same_evaluation"] += again and any(t == "x:done" for t, _ in r1["log"])
        dist["second_request_on_another_thread"] += again and any(k == "other" for t, k in r1["log"] if t == "x")
        dist["committed_paths_without_blob_after_a_handled_failure (dds.load refuses them)"] += dangling(res)
        for vkey, what, lab in viol:
            rep.violation(vkey, what, {"hplan": pl, "action": lab, "history": history(pl), "source": source(prog, pl["catch"]),
                                       "observed": res["M"].get(lab), "reference": res["R"].get(lab)})
    if plans:
        rep.sample({"handled": describe(plans[0])})
    return dist


def replay(r):
    pl = r["hplan"]
    res = run_all([pl])[0]
    if "error" in res:
        print(res["error"])
        return 2
    print("# " + describe(pl))
    print(source(pl["prog"], pl["catch"]))
    for lab in ("eval1", "eval2", "other", "eval3", "eval4"):
        if lab in res["M"]:
            print(" ", lab, "dds:", res["M"][lab]["out"][:100], "| log:", [t for t, _ in res["M"][lab]["log"]], "| stored:", put_tags(res["M"][lab]))
            print(" ", " " * len(lab), "ref:", res["R"][lab]["out"][:100], "| log:", [t for t, _ in res["R"][lab]["log"]], "| stored:", put_tags(res["R"][lab]))
    v = check(pl, res)
    for key, what, where in v:
        print(json.dumps({"key": key, "what": what, "where": where}))
    print("REPRODUCED" if v else "not reproduced")
    return 1 if v else 0
