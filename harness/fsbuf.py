"""Faithful buffering on top of harness/fsgate.py (C07; trusted harness part like fsgate).

fsgate's file proxy treats every f.write(data) of the program as the system call (in 'sched' mode it even flushes after
each half), so the bytes are in the file at the moment of the Python-level write.  A real file object opened with
open(path, "wb") / open(path, "w") is BUFFERED: f.write only copies into the buffer of the process, and the bytes reach
the file when the buffer overflows, at f.flush() and - the usual case for small files - at f.close() (the end of the
`with` block).  Whatever another process can observe between the Python-level write and that moment (a file that exists,
was renamed to its final name, is still empty or holds only the first buffer-full) is invisible to fsgate alone.

With STATE["buffered"] set, files opened for writing on an interesting path are built the way io.open builds them
(FileIO -> BufferedWriter / BufferedRandom -> TextIOWrapper, same buffer size), but on a FileIO whose write and close
are the gated operations: a scheduling point lies before every os-level write (each half of it when tearing is on) and
before the os-level close, wherever in the program they really happen.  Nothing of the program's own buffering
behaviour is changed.  Files opened for reading keep fsgate's proxy."""
import builtins
import io
import os
import sys

import fsgate

STATE = {"buffered": False, "installed": False}


class _Raw(io.FileIO):
    """The unbuffered file at the bottom of a file object: its write / close are the system calls."""

    def __init__(self, path, mode):
        super().__init__(path, mode)
        self._gpath = path

    def write(self, b):
        data = bytes(b)
        n = len(data)
        if fsgate.STATE["mode"] == "sched" and fsgate.STATE.get("tear") and n > 1:
            # a torn write: two system calls with a scheduling point in between
            h = n // 2
            fsgate._before("write", self._gpath, data_len=h)
            self._all(data[:h])
            fsgate._before("write", self._gpath, data_len=n - h)
            self._all(data[h:])
            return n
        fsgate._before("write", self._gpath, data_len=n)
        return super().write(data)

    def _all(self, data):
        while data:
            k = super().write(data)
            data = data[k:]

    def close(self):
        if not self.closed:
            fsgate._before("close", self._gpath)
        return super().close()


def _buffer_size(raw):
    """The size io.open gives to the buffer of a file opened with buffering=-1."""
    bs = getattr(raw, "_blksize", 0)
    if sys.version_info >= (3, 13):
        return max(min(bs, 8192 * 1024), io.DEFAULT_BUFFER_SIZE)
    return bs if bs > 1 else io.DEFAULT_BUFFER_SIZE


def _build(file, mode, buffering, encoding, errors, newline):
    """io.open(file, mode, ...) for a writing mode, on a gated FileIO."""
    binary = "b" in mode
    raw = _Raw(file, "".join(c for c in mode if c not in "bt"))
    line_buffering = False
    if buffering == 1 and not binary:
        buffering, line_buffering = -1, True
    if buffering < 0:
        buffering = _buffer_size(raw)
    if buffering == 0:
        if not binary:
            raw.close()
            raise ValueError("can't have unbuffered text I/O")
        return raw
    buf = (io.BufferedRandom if "+" in mode else io.BufferedWriter)(raw, buffering)
    if binary:
        return buf
    text = io.TextIOWrapper(buf, encoding, errors, newline, line_buffering)
    text.mode = mode
    return text


def install(buffered=True):
    """To be called AFTER fsgate.install (every time: sets the mode; the interposition itself is installed once)."""
    STATE["buffered"] = bool(buffered)
    if STATE["installed"]:
        return
    STATE["installed"] = True
    gated = builtins.open           # fsgate's

    def bopen(file, mode="r", buffering=-1, encoding=None, errors=None, newline=None, closefd=True, opener=None):
        if (STATE["buffered"] and fsgate.STATE["mode"] != "off" and opener is None and closefd
                and isinstance(file, (str, bytes, os.PathLike)) and isinstance(mode, str)
                and any(c in mode for c in "wax+") and fsgate._interesting(file) and not getattr(fsgate._tls, "inside", False)):
            fsgate._before("open", file, mode)
            return _build(file, mode, buffering, encoding, errors, newline)
        return gated(file, mode, buffering, encoding, errors, newline, closefd, opener)
    builtins.open = bopen
    io.open = bopen
