"""C14 - exactly the accepted modules are tracked."""
import json
import random

import common as C

COQ_FILES = ("Base/Bytes.v", "L2_Disc/Accept.v", "L4_Eval/RunSmall.v", "L2_Disc/AcceptProofs.v", "L2_Disc/MiniPy.v", "L2_Disc/Visitors.v",
             "L2_Disc/DiscCheck.v", "L2_Disc/DiscProofs.v", "Properties/C14.v", "Properties/C14b.v", "Base/PyRt.v", "Extracted/GenAccept.v", "L2_Disc/GenAcceptProofs.v", "Properties/C14g.v")
PROPERTY_FILES = ("C14", "C14b", "C14g")
EXTRACTED = ("ConstAccept", "GenAccept")
ALLOWED_AXIOMS = ()

PRELUDE = """From Coq Require Import List String.
From DDS Require Import Base.Bytes L2_Disc.Accept L4_Eval.RunSmall.
Import ListNotations.
"""


def lst(xs):
    return "[" + "; ".join(C.hexs(x) for x in xs) + "]"


def expected(parts, accepted):
    """Specification: some dotted prefix (incl. the whole path) of the canonical path is accepted."""
    return any(".".join(parts[:i]) in accepted for i in range(1, len(parts) + 1))


def gen_cases(rng, tier):
    cases = []
    names = ["pkg", "sub", "mod", "deep", "x", "y"]
    fillers = [f"other{i}" for i in range(40)]
    for depth in range(1, 7):
        parts = names[:depth] + ["fun"]
        for acc_depth in range(0, depth + 2):
            for n_acc in (1, 2, 3, 4, 5, 7, 10, 20, 40):
                acc = set(rng.sample(fillers, n_acc - 1)) if acc_depth else set(rng.sample(fillers, n_acc))
                if acc_depth:
                    acc.add(".".join(parts[:acc_depth]))
                cases.append({"parts": parts, "accepted": sorted(acc)})
                # with the default entries, as in the running library
                cases.append({"parts": parts, "accepted": sorted(acc | {"dds", "__main__", "__global__"})})
    # near misses: accepted name is a string prefix but not a dotted prefix
    for _ in range(100 if tier == "quick" else 1000):
        depth = rng.randint(1, 6)
        parts = [rng.choice(names) for _ in range(depth)] + ["f"]
        acc = set()
        for _ in range(rng.randint(1, 5)):
            k = rng.randint(1, depth + 1)
            cand = ".".join(parts[:k])
            r = rng.random()
            if r < 0.3:
                cand = cand + "x"
            elif r < 0.5:
                cand = cand[:-1] if len(cand) > 1 else cand
            elif r < 0.6:
                cand = "z." + cand
            acc.add(cand)
        cases.append({"parts": parts, "accepted": sorted(acc)})
    return cases


def run(rep, tier, seed, proof_ok):
    rng = random.Random(seed)
    rep.rule = ("is_authorized_path: package depths 1..6 x accepted prefix at each depth (or none) x 1..40 accepted packages, with and "
                "without the three default entries, plus random near-miss accepted names; real EvalMainContext.is_authorized_path vs "
                "Coq model vs the dotted-prefix specification; non-trivial = accepted prefix deeper than the number of accepted packages "
                "or a near miss; then package trees on disk (harness/c14_programs.py): accepted prefix at every depth x import forms, edits of code and "
                "variables on both sides of the boundary, data functions of non-accepted modules; then OBJECT SHAPES (harness/c14_shapes.py): in trees "
                "of depth 1..6 x accepted prefix at every depth x 1..40 accepted packages x non-accepted twin package (separate tree / near-miss name / "
                "sibling of the accepted package), a function of a definition module is exposed to the accepted pipeline under 22 shapes (plain, alias "
                "by assignment, old name kept by a functools.wraps wrapper, decorated in place, closure wrapper, functools.partial, lambda, function "
                "made by a factory, static / instance method, class alias, re-export through a facade module or a package __init__ with and without "
                "renaming, facade of an alias / of a wrapper, wrapper made in the facade, two hops) x definition and exposure each on the accepted or "
                "the non-accepted side x 5 import forms; a random history of 4 edits (code / tracked variable, accepted / non-accepted side) is "
                "replayed by fresh processes on one local store: accepted edits must change the signature of every root that reaches them and the kept "
                "value must equal plain execution, non-accepted edits must change none; constructs refused at every step are counted, not violations; "
                "then PACKAGE AND MODULE KINDS (harness/c14_kinds.py): every level of the package chain (depth 1..4 quick / 1..6, accepted prefix at every "
                "depth, 1..40 accepted packages, the three twins) is a regular package, a PEP 420 namespace package without __init__.py (one at every "
                "position incl. the accepted prefix itself, or the whole chain) or a package whose __init__ imports its children; the tree is a directory, "
                "namespace packages split over two sys.path roots, a zip file on sys.path or reached through a symbolic link; the pipeline module is in a "
                "regular package, in a namespace package or a single file; the function is reached through 15 leaf kinds (single-file module, package "
                "__init__, file that is a symbolic link, relative import of a sibling / of a module of the parent package by from-import and by module, star "
                "import governed by __all__ through a module / a package __init__, sub-module as attribute of its package, sub-module imported lazily "
                "inside the function by dotted name (loaded before by the pipeline or not) / under an alias / relatively, built-in and frozen modules without __file__ next to it) on the accepted "
                "and on the non-accepted side x 7 import forms (the 5 above + attribute chains starting at an alias of the top-level package / of a "
                "package in the middle of the chain); history of one edit per side (quick) or of the 4 edits replayed by fresh processes on one local "
                "store, judged as for the shapes; besides, an accepted module must never be refused as not accepted (MODULE_NOT_FOUND) when plain "
                "execution works, and the data function of the non-accepted twin module must be refused with a DDS error naming the module; "
                "then REPEATED REQUESTS IN ONE PROCESS (harness/c14_repeat.py): in trees of depth 1..4 quick / 1..6 x accepted prefix at every depth x 1..40 "
                "accepted packages x the three twins x 5 import forms, one process (notebook cell run again, driver that catches and retries) makes a script of "
                "5..14 requests f() / dds.keep / dds.eval on one local store: one of 7 refusal scenarios (data function / plain function / function with "
                "arguments / function that keeps of the non-accepted module at top level; accepted root that calls the data function, keeps a function, calls a "
                "keeping function of the non-accepted module) asked 2..4 times through every entry point in every order with the same and with other "
                "arguments, a second refusal scenario asked 1..2 times, 1..3 requests of the accepted module (some twice) interleaved at random positions, in "
                "one script of three dds.accept_module(twin) in the middle of the life of the process followed by the requests refused before; EVERY "
                "request of a non-accepted function must be refused with a DDS error naming the module, execute no generated code (execution counter outside of "
                "dds) and leave paths and blobs of the store untouched, every accepted request must succeed after any number of refusals with the value of plain "
                "execution and the signature that a bare process (fresh process and store, no refusal before) commits, after the late accept_module the value "
                "of plain execution and the signature of a process that accepted the twin from the start")
    cases = gen_cases(rng, tier)
    impl = C.run_driver("drive_small.py", {"kind": "authorized", "cases": cases})
    model = C.coq_eval_strings(PRELUDE, [f"run_authorized {lst(c['parts'])} {lst(c['accepted'])}" for c in cases], label="c14")
    for c, i, m in zip(cases, impl, model):
        exp = expected(c["parts"], set(c["accepted"]))
        rep.case(json.dumps(c), nontrivial=exp and len(c["accepted"]) <= len(c["parts"]) or not exp)
        if str(i).lower() != m:
            rep.violation("model-mismatch:authorized", f"is_authorized_path: impl {i} vs model {m}", {"case": c, "impl": i, "model": m})
        if i != exp:
            k = "deep-package-few-accepted" if exp else "spurious-accept"
            rep.violation(f"authorized:{k}", f"canonical path {'.'.join(c['parts'])} with accepted={c['accepted']}: expected {exp}, got {i}",
                          {"case": c, "impl": i, "expected": exp})
    rep.extra["input_distribution"] = {"cases": len(cases), "expected_true": sum(1 for c in cases if expected(c["parts"], set(c["accepted"])))}
    rep.sample(cases[0]); rep.sample(cases[200]); rep.sample(cases[-1])
    # discovery model (L2_Disc/Visitors.v) against the reference derivation of the harness, on generated and stressed programs
    import progs
    bad = progs.check_discover(6 if tier == "quick" and proof_ok else 120, seed, shard=6, verbose=False)
    rep.extra["discover_mismatches"] = len(bad)
    rep.case("discover-vs-reference-derivation")
    for b in bad[:3]:
        rep.violation("model-mismatch:discover", f"discover and the reference derivation of the analysis view differ: {b}", {"case": list(map(str, b))}, no_input=True)
    try:
        import c14_programs
        c14_programs.run(rep, tier, seed, proof_ok, rng)
    except ImportError:
        rep.extra["program_part"] = "package-tree / edit part not built yet"
    import c14_shapes
    c14_shapes.run(rep, tier, seed, proof_ok, rng)
    rep.extra["input_distribution"].update({"object_shapes": rep.extra["shape_part"]["shapes"], "shape_configurations": rep.extra["shape_part"]["configurations"],
                                            "shape_scenarios": rep.extra["shape_part"]["scenarios"],
                                            "distinct_shape_x_sides_x_import_form": rep.extra["shape_part"]["distinct_shape_sides_form"],
                                            "shape_root_evaluations_judged": rep.extra["shape_part"]["root_evaluations_judged"]})
    import c14_kinds
    c14_kinds.run(rep, tier, seed, proof_ok, rng)
    kp = rep.extra["kind_part"]
    rep.extra["input_distribution"].update({"kind_configurations": kp["configurations"], "package_level_kinds": kp["level_kinds"], "tree_containers": kp["containers"],
                                            "pipeline_module_kinds": kp["pipeline_kinds"], "leaf_kinds": kp["leaf_kinds"], "kind_import_forms": kp["import_forms"],
                                            "distinct_chain_x_container_x_pipeline": kp["distinct_chain_x_container_x_pipeline"], "kind_scenarios": kp["scenarios"],
                                            "distinct_leaf_x_side_x_form_x_levelkinds_x_container": kp["distinct_leaf_side_form_levelkinds_container"],
                                            "kind_root_evaluations_judged": kp["root_evaluations_judged"],
                                            "data_functions_of_non_accepted_modules_by_kind": kp["data_functions_of_non_accepted_modules"]})
    import c14_repeat
    c14_repeat.run(rep, tier, seed, proof_ok, rng)
    rp = rep.extra["repeat_part"]
    rep.extra["input_distribution"].update({"repeat_configurations": rp["configurations"], "repeat_scripts_one_process_each": rp["scripts"],
                                            "repeat_scripts_with_late_accept_module": rp["scripts_with_late_accept_module"], "repeat_requests": rp["requests"],
                                            "repeat_refusal_scenarios": rp["refusal_scenarios"],
                                            "distinct_refusal_scenario_x_entry_point_sequence": rp["distinct_refusal_scenario_x_entry_point_sequence"],
                                            **{"repeat: " + k: v for k, v in rp.items() if " judged" in k or " after " in k}})


def replay(path):
    r = json.load(open(path))["replay"]
    if "case" in r:
        i = C.run_driver("drive_small.py", {"kind": "authorized", "cases": [r["case"]]})[0]
        exp = expected(r["case"]["parts"], set(r["case"]["accepted"]))
        print(json.dumps({"case": r["case"], "impl": i, "expected": exp}))
        print("REPRODUCED" if i != exp else "not reproduced")
        return 1 if i != exp else 0
    if "repeat_case" in r:
        import c14_repeat
        return c14_repeat.replay(r)
    if "kind_case" in r:
        import c14_kinds
        return c14_kinds.replay(r)
    if "shape_case" in r:
        import c14_shapes
        return c14_shapes.replay(r)
    import c14_programs
    return c14_programs.replay(r)
