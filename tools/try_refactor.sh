#!/bin/bash
# usage: tools/try_refactor.sh <patch> <Cnn> [<Cnn> ...]  -- behaviour-preserving patch: every alarm is noise
P=$1; shift
cd /repo || exit 2
git diff --quiet || { echo "/repo not clean"; exit 2; }
rm -rf /tmp/ev_backup && cp -r /verif/evidence /tmp/ev_backup
git apply --whitespace=nowarn $P || { echo "patch does not apply: $P"; exit 2; }
for c in "$@"; do (cd /verif && ./check $c quick 2>&1 | grep "VIOLATION\|what:\|^\[C" | cut -c1-260); done
rm -rf /verif/evidence && mv /tmp/ev_backup /verif/evidence
git -C /repo checkout -- . ; git -C /repo status --short | head -3
