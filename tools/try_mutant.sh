#!/bin/bash
# usage: tools/try_mutant.sh <patch.diff> <demo.py> <prop> [tier]  -- applies the patch to /repo, runs demo + check, reverts
set -u
P=$1; D=$2; PROP=$3; TIER=${4:-quick}
cd /repo || exit 2
git diff --quiet || { echo "/repo not clean"; exit 2; }
echo "--- demo on unmodified /repo"; PYTHONPATH=/repo /venv/bin/python $D | tail -2; echo "rc=$?"
rm -rf /tmp/ev_backup && cp -r /verif/evidence /tmp/ev_backup
git apply --whitespace=nowarn $P || { echo "patch does not apply"; exit 2; }
echo "--- demo on changed /repo"; PYTHONPATH=/repo /venv/bin/python $D | tail -3
echo "--- check $PROP $TIER on changed /repo"
(cd /verif && ./check $PROP $TIER 2>&1 | grep -v "^WARNING conda" | tail -12)
rm -rf /verif/evidence && mv /tmp/ev_backup /verif/evidence   # evidence must come from the unchanged tree
git -C /repo checkout -- . ; git -C /repo status --short | head -3
