#!/bin/bash
# usage: tools/save_mutant.sh <ID> <name>   (takes /tmp/mut/<ID>_demo/{patch.diff,demo.py})
ID=$1; NAME=$2; D=/verif/seeded/$ID-$NAME
mkdir -p $D; cp /tmp/mut/${ID}_demo/patch.diff /tmp/mut/${ID}_demo/demo.py $D/
ls $D
