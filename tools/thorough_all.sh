#!/bin/bash
# Runs the thorough tier of every property (in the current directory's copy of /verif) and prints the summary lines.
# usage: tools/thorough_all.sh [Cnn ...]
./check --setup 2>&1 | tail -1
for p in ${@:-C01 C02 C03 C04 C05 C06 C07 C08 C09 C10 C11 C12 C13 C14 C15 C16 C17 C18 C19}; do
  date -u +%T
  timeout 5400 ./check $p thorough 2>&1 | grep "VIOLATION\|what:\|^\[C" | cut -c1-400
done
date -u +%T
