#!/bin/bash
# Re-runs the quick check of each seeded change's own property against a worktree of /repo with the change applied.
# usage: tools/regress_seeded.sh <out file> [glob of seeded directories]   (prints one line per change)
OUT=$1; PATTERN=${2:-"/verif/seeded/C*-*"}
WT=/tmp/mut/regress
git -C /repo worktree remove --force $WT 2>/dev/null; git -C /repo worktree add --detach $WT HEAD >/dev/null 2>&1 || exit 2
rm -rf /tmp/ev_backup_reg && cp -r /verif/evidence /tmp/ev_backup_reg
: > $OUT
for d in $PATTERN; do
  [ -f $d/patch.diff ] || continue
  id=$(basename $d); prop=${id:0:3}
  git -C $WT checkout -- . >/dev/null 2>&1; git -C $WT clean -fdq
  if ! git -C $WT apply --whitespace=nowarn $d/patch.diff 2>/dev/null; then echo "$id does-not-apply-to-HEAD" >> $OUT; continue; fi
  line=$(cd /verif && DDS_REPO=$WT timeout 1500 ./check $prop quick 2>&1 | grep "^\[C" | tail -1)
  nf=$(cd /verif && ls evidence/replays 2>/dev/null | wc -l)
  echo "$id $line" >> $OUT
done
rm -rf /verif/evidence && mv /tmp/ev_backup_reg /verif/evidence
git -C /repo worktree remove --force $WT
