# CPU load generator for flakiness sweeps: python3 tools/busy.py <seconds>
import sys, time
end = time.time() + float(sys.argv[1])
while time.time() < end:
    pass
