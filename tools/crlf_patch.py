"""Apply literal replacements to a /repo file preserving its line endings.
usage: crlf_patch.py FILE  (reads pairs from a python file given as 2nd arg defining EDITS=[(old,new),...])"""
import sys, runpy
path, spec = sys.argv[1], sys.argv[2]
raw = open(path, 'rb').read()
crlf = b'\r\n' in raw
s = raw.decode('utf-8').replace('\r\n', '\n')
for old, new in runpy.run_path(spec)['EDITS']:
    assert s.count(old) == 1, (s.count(old), old)
    s = s.replace(old, new)
if crlf:
    s = s.replace('\n', '\r\n')
open(path, 'wb').write(s.encode('utf-8'))
