"""Generates MANIFEST.json from the table below (kept in one place so that it stays valid)."""
import json, os
V = os.path.dirname(os.path.dirname(os.path.abspath(__file__)))
props = [json.loads(l) for l in open(os.path.join(V, "properties.jsonl"))]
CLAIMS = json.load(open(os.path.join(V, "tools", "claims.json")))
checks, na = [], []
for p in props:
    pid = p["id"]
    c = CLAIMS.get(pid)
    if not c or c.get("not_applicable"):
        na.append({"property_id": pid, "reason": (c or {}).get("reason", "check not built yet in this phase; see DESIGN.md section 10 (order of work)")})
        continue
    checks.append({
        "property_id": pid,
        "quick_cmd": f"./check {pid} quick",
        "thorough_cmd": f"./check {pid} thorough",
        "evidence_file": f"evidence/{pid}.json",
        "replay_cmd_template": f"./check {pid} --replay {{path}}",
        "engine": "coq-model+correspondence",
        "level_claimed": {"category": "proof", "text": c["text"], "design_ref": c.get("design_ref", f"DESIGN.md section 5 / {pid}")},
        "level_note": c["note"],
        "technique": c["technique"],
    })
m = {
    "version": 1,
    "setup_cmd": "./check --setup",
    "hooks": {"guard": "TJHUNTER_DDS_PY_VERIF", "enable": "no source hooks: checks observe through the public API, Store subclasses and os-level interposition in harness child processes; the variable is exported by the harness but read by nothing in /repo",
              "baseline_off_cmd": "cd /repo && /venv/bin/python -m pytest -ra -q -p no:cacheprovider --timeout=900 --continue-on-collection-errors",
              "source_commits": [], "add_only": True},
    "engines": [{"name": "coq-model+correspondence", "path": "coq/ + harness/ + check",
                 "serves_properties": [c["property_id"] for c in checks],
                 "kind_free_text": "Coq 8.16 theorems over an executable Gallina model of dds (coq/theories), tied to /repo on every run by (a) a fail-closed extractor that regenerates the constants/tables the theorems depend on and (b) a byte-exact correspondence harness (vm_compute vs the real code), with a failing-input search on the real code"}],
    "checks": checks,
    "not_applicable": na,
    "notes": "See DESIGN.md. known_findings.json lists recorded defects; 'fix:' commits in /repo repair the others.",
}
json.dump(m, open(os.path.join(V, "MANIFEST.json"), "w"), indent=1)
print(len(checks), "checks;", len(na), "not claimed")
