#!/bin/bash
# usage: tools/try_wt.sh <worktree with the change applied> <Cnn> [tier]   -- runs the check against another tree (DDS_REPO), evidence restored
WT=$1; PROP=$2; TIER=${3:-quick}
rm -rf /tmp/ev_backup_$PROP && cp -r /verif/evidence /tmp/ev_backup_$PROP
(cd /verif && DDS_REPO=$WT ./check $PROP $TIER 2>&1 | grep -v "^WARNING conda\|KNOWN-FINDING" | tail -${LINES_OUT:-8})
rm -rf /verif/evidence && mv /tmp/ev_backup_$PROP /verif/evidence
