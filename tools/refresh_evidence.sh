#!/bin/bash
# Re-runs every quick check on the CURRENT (must be clean) /repo tree and audits the evidence files.
cd /verif || exit 2
git -C /repo diff --quiet || { echo "/repo has uncommitted changes"; exit 2; }
for p in ${@:-C01 C02 C03 C04 C05 C06 C07 C08 C09 C10 C11 C12 C13 C14 C15 C16 C17 C18 C19}; do ./check $p quick 2>&1 | grep "VIOLATION\|^\[C"; done
/venv/bin/python - <<'P'
import json, glob, jsonschema
sch = json.load(open('/root/.vp/EVIDENCE.schema.json'))
bad = 0
for f in sorted(glob.glob('/verif/evidence/C*.json')):
    d = json.load(open(f)); c = d['coverage']
    try:
        jsonschema.validate(d, sch)
    except Exception as e:
        print(f, "SCHEMA", str(e)[:100]); bad += 1
    if d['violations'] or c['obligations'] != c['discharged']:
        print(f, "NOT CLEAN", d['violations'], c['obligations'], c['discharged']); bad += 1
print("evidence audit:", "ok" if not bad else f"{bad} problem(s)")
P
